"""C20 - incomplete problems are rejected at set-up, never compiled and run.

Every shipped Equation / IntegratorStep subclass (and toy / generated
equation classes) is placed in a problem from which exactly one thing it
needs is missing - a property named by a d_*/s_* argument of a hook, a
property needed only through a precomputed pair symbol, or the array a
dest/source/stepper keyword names - and the set-up path
(AccelerationEval -> SPHCompiler construction -> integrator code generation)
must raise a RuntimeError naming the class and the missing name.  Nothing is
ever compiled or executed here: being accepted IS the violation.
"""
import contextlib
import importlib
import inspect
import os
import pkgutil
import re

from hypothesis import strategies as st

from vlib.hyp import Failure, Outcome, Stats, search, derive_seed, canon

RULE = ('cases = (equation or stepper class) x array layout (1-3 sources, '
        'destination separate or one of the sources; 1-3 stepped arrays) x '
        'one fault (one needed name removed from one array | misspelt dest | '
        'misspelt source | misspelt stepper array | none) x placement (flat '
        'list, Group, sub-Group, MultiStageEquations stage) x complete filler '
        'equations around it. Shipped classes (288 equations, 36 steppers) '
        'and 29 toy classes are enumerated exhaustively over needed names x '
        'arrays x placements; generated classes (random hooks/arguments/pair '
        'symbols, some names supplied as constants, minimal arrays) are '
        'searched with Hypothesis. The needed names are computed by the check '
        'from inspect.signature of the hooks plus the documented formulas of '
        'the pair symbols. Non-trivial = the removed name is needed on that '
        'array only through a pair symbol, or it is removed from a non-first '
        'source (steppers: from an array while another array has it); '
        'distinct by case hash. Structure around the equation: plain filler '
        'groups before / after its group (its group is not the last one; '
        'groups with sub-groups next to groups without), 2 or 3 stages, Group '
        'options (iterate, real=False/update_nnps, start/stop_idx, condition), '
        'a complete twin instance of the same class on another array before or '
        'after it, the particle-array list reversed or rotated. Steppers: 36 '
        'shipped + 4 toy classes, the stepper under test first / in the middle '
        '/ last in the order of the integrator keyword arguments, some names '
        'supplied as constants, PEC / EPEC / TVDRK3 integrators. Paths: '
        'construction (AccelerationEval + SPHCompiler + integrator code '
        'generation), SPHCompiler.compile(), SPHEvaluator(...), '
        'Solver.setup(...) - the last three with the build step replaced by a '
        'sentinel exception (reaching it = accepted).')
ASSUMPTIONS = [
    'requirements of pair symbols follow their documented formulas '
    '(docs/source/design/equations.rst): WI/DWI/GHI/WDASHI need h on the '
    'destination only, WJ/DWJ/GHJ/WDASHJ on the source only; pair symbols '
    'are honoured only as arguments of `loop`',
    'hooks inspected: initialize, initialize_pair, loop, loop_all, post_loop; '
    'reduce/py_initialize/converged take the array object and are excluded',
    'stepper requirements are checked by the integrator code generator '
    '(SPHCompiler(...).integrator_helper.get_code(), the step compile() '
    'performs before compiling); that call is part of the set-up path',
    'an equation instantiated without sources is only checked on its '
    'destination',
    'a name supplied as a constant satisfies a requirement just as a '
    'property does',
    'paths compile / evaluator / solver: ExtModule.build/load and '
    'AccelerationEvalCythonHelper.compile raise a sentinel; everything before '
    'them (all checks and the code generation) runs unmodified',
    'Group options and Group(start_idx=..., stop_idx=...) are given as '
    'integers only (a string there would be a further requirement the '
    'property does not speak about)',
    'message check: the class name and the missing name (as a whole word) '
    'must occur in the RuntimeError text; for a misspelt array the bad array '
    'name must occur',
]
SYMBOLS = ['HIJ', 'EPS', 'XIJ', 'R2IJ', 'RIJ', 'VIJ', 'RHOIJ', 'RHOIJ1',
           'WIJ', 'WI', 'WJ', 'WDP', 'DWIJ', 'DWI', 'DWJ', 'GHI', 'GHJ',
           'GHIJ', 'WDASHI', 'WDASHJ', 'WDASHIJ']
PLACEMENTS = ['flat', 'group', 'subgroup', 'multistage']
ESSENTIAL_LABELS = {'all': (
    ['need:explicit', 'need:implicit', 'role:dest', 'role:source',
     'role:dest+source', 'src_pos:0', 'src_pos:1', 'src_pos:2',
     'fault:none', 'fault:remove', 'fault:bad_dest', 'fault:bad_source',
     'fault:bad_stepper', 'stepper:remove', 'stepper:other_has_it',
     'shipped:equation', 'shipped:stepper', 'toy', 'generated',
     'arrays:constants', 'arrays:minimal', 'arrays:exact', 'filler',
     'enum:done',
     'struct:eq_group_not_last', 'struct:mixed_subgroups',
     'struct:group_opts', 'struct:stages3', 'struct:twin_before',
     'struct:twin_after', 'arrays:permuted', 'via:construct', 'via:compile',
     'via:evaluator', 'via:solver', 'toy:stepper', 'stepper:constants',
     'stepper_pos:first', 'stepper_pos:middle', 'stepper_pos:last']
    + ['placement:' + p for p in PLACEMENTS]
    + ['sym:' + s for s in SYMBOLS])}
EXHAUSTIVE = {'quick': False, 'thorough': False}
SHARD_TIMEOUT = {'quick': 900, 'thorough': 4 * 3600}

HOOKS = ('initialize', 'initialize_pair', 'loop', 'loop_all', 'post_loop')
XYZ = ('x', 'y', 'z')
XYZH = ('x', 'y', 'z', 'h')
UVW = ('u', 'v', 'w')
# pair symbol -> (names needed on the destination, on every source); from the
# documented formulas, dependencies expanded by hand.
IMPLICIT = {
    'HIJ': (('h',), ('h',)), 'EPS': (('h',), ('h',)),
    'XIJ': (XYZ, XYZ), 'R2IJ': (XYZ, XYZ), 'RIJ': (XYZ, XYZ),
    'VIJ': (UVW, UVW),
    'RHOIJ': (('rho',), ('rho',)), 'RHOIJ1': (('rho',), ('rho',)),
    'WIJ': (XYZH, XYZH), 'DWIJ': (XYZH, XYZH), 'GHIJ': (XYZH, XYZH),
    'WDASHIJ': (XYZH, XYZH), 'WDP': (XYZH, XYZH),
    'WI': (XYZH, XYZ), 'DWI': (XYZH, XYZ), 'GHI': (XYZH, XYZ),
    'WDASHI': (XYZH, XYZ),
    'WJ': (XYZ, XYZH), 'DWJ': (XYZ, XYZH), 'GHJ': (XYZ, XYZH),
    'WDASHJ': (XYZ, XYZH),
}
assert sorted(IMPLICIT) == sorted(SYMBOLS)
DEFAULT_PROPS = ('x', 'y', 'z', 'u', 'v', 'w', 'm', 'h', 'rho', 'p',
                 'au', 'av', 'aw', 'gid', 'pid', 'tag')
BUILTIN = ('gid', 'pid', 'tag')
FILL = 'c20fill'
TOYMOD = 'checks.c20_eqs'
# constructor arguments that cannot be "a positive float"
OVERRIDES = {
    ('MonaghanKajtarBoundaryForce', 'K'): 1.0,
    ('MonaghanKajtarBoundaryForce', 'beta'): 2.0,
    ('MonaghanKajtarBoundaryForce', 'h'): 0.1,
}
MANGLE = ['append', 'upper', 'drop']


# ----------------------------------------------------------------- discovery
_DISC = {}


def discover():
    """All Equation / IntegratorStep subclasses defined under pysph.sph."""
    if _DISC:
        return _DISC['eq'], _DISC['st']
    import pysph.sph
    from pysph.sph.equation import Equation
    from pysph.sph.integrator_step import IntegratorStep
    eqs, steps, errors = {}, {}, []
    for m in pkgutil.walk_packages(pysph.sph.__path__, 'pysph.sph.'):
        if '.tests' in m.name:
            continue
        try:
            mod = importlib.import_module(m.name)
        except BaseException as ex:       # optional dependency missing
            errors.append('%s: %r' % (m.name, ex))
            continue
        for n, o in vars(mod).items():
            if not inspect.isclass(o) or o.__module__ != m.name:
                continue
            if issubclass(o, Equation) and o is not Equation:
                eqs[m.name + '.' + n] = o
            if issubclass(o, IntegratorStep) and o is not IntegratorStep:
                steps[m.name + '.' + n] = o
    _DISC.update(eq=eqs, st=steps, errors=errors)
    return eqs, steps


def load_class(path):
    mod, _, name = path.rpartition('.')
    return getattr(importlib.import_module(mod), name)


_GEN = {}


def gen_class(hooks):
    """Equation subclass with the given hook signatures (never compiled)."""
    from pysph.sph.equation import Equation
    key = canon(hooks)
    if key not in _GEN:
        src = ['class C20Generated(Equation):']
        for h in sorted(hooks):
            src.append('    def %s(self, %s):\n        pass' % (
                h, ', '.join(hooks[h])))
        ns = {}
        exec('\n'.join(src), {'Equation': Equation}, ns)
        _GEN[key] = ns['C20Generated']
    return _GEN[key]


def instantiate(cls, dest, sources):
    """Instance from the __init__ signature: defaults where given, dim -> 2,
    dest/sources -> array names, other required arguments -> 1.5."""
    sig = inspect.signature(cls.__init__)
    kw = {}
    for p in list(sig.parameters.values())[1:]:
        if p.kind in (p.VAR_POSITIONAL, p.VAR_KEYWORD):
            continue
        if p.name == 'dest':
            kw[p.name] = dest
        elif p.name == 'sources':
            kw[p.name] = list(sources)
        elif (cls.__name__, p.name) in OVERRIDES:
            kw[p.name] = OVERRIDES[(cls.__name__, p.name)]
        elif p.default is not inspect.Parameter.empty:
            continue
        elif p.name == 'dim':
            kw[p.name] = 2
        else:
            kw[p.name] = 1.5
    return cls(**kw)


# ------------------------------------------------ independent requirements
def _args(obj, meth):
    f = getattr(obj, meth, None)
    if f is None or not callable(f):
        return []
    return [a for a in inspect.signature(f).parameters if a != 'self']


_NEEDS = {}


def equation_needs(obj):
    """-> (explicit_d, explicit_s, implicit_d, implicit_s, symbols)"""
    key = type(obj)
    if key not in _NEEDS:
        _NEEDS[key] = _equation_needs(obj)
    ed, es, idd, ids, syms = _NEEDS[key]
    return set(ed), set(es), set(idd), set(ids), list(syms)


def _equation_needs(obj):
    ed, es = set(), set()
    for h in HOOKS:
        for a in _args(obj, h):
            if a.startswith('d_') and a != 'd_idx':
                ed.add(a[2:])
            elif a.startswith('s_') and a != 's_idx':
                es.add(a[2:])
    idd, ids, syms = set(), set(), []
    for a in _args(obj, 'loop'):
        if a in IMPLICIT:
            syms.append(a)
            idd.update(IMPLICIT[a][0])
            ids.update(IMPLICIT[a][1])
    return ed, es, idd, ids, syms


def stepper_needs(obj):
    names = set()
    for m in dir(obj):
        if m == 'initialize' or (m.startswith('stage') and
                                 m[5:].isdigit()):
            for a in _args(obj, m):
                if a[:2] in ('d_', 's_') and a not in ('d_idx', 's_idx'):
                    names.add(a[2:])
    return names


# ------------------------------------------------------------ array builder
_ARRAYS = {}


def make_array(name, props, consts=(), minimal=False, without=None):
    """Particle array with the default properties of get_particle_array plus
    `props` (when minimal: only gid/pid/tag plus `props`), minus `without`;
    names in `consts` are supplied as constants."""
    from pysph.base.utils import get_particle_array
    props = set(props)
    props.discard(without)
    consts = set(c for c in consts if c in props and c not in DEFAULT_PROPS)
    key = (name, tuple(sorted(props)), tuple(sorted(consts)), bool(minimal),
           without)
    if key in _ARRAYS:          # set-up never modifies the arrays
        return _ARRAYS[key]
    if len(_ARRAYS) > 4000:
        _ARRAYS.clear()
    add = sorted(p for p in props if p not in DEFAULT_PROPS and
                 p not in consts)
    pa = get_particle_array(name=name, additional_props=add,
                            constants=dict((c, [0.0]) for c in
                                           sorted(consts)))
    keep = (set(BUILTIN) | props) if minimal else set(DEFAULT_PROPS)
    keep.discard(without)
    for p in DEFAULT_PROPS:
        if p not in keep:
            pa.remove_property(p)
    have = set(pa.properties) | set(pa.constants)
    assert props <= have and without not in have, (name, props, have)
    _ARRAYS[key] = pa
    return pa


def mangle(name, how):
    if how == 'upper':
        return name.upper()
    if how == 'drop':
        return name[:-1]
    return name + 'x'


def word_in(name, text):
    return re.search(r'(?<![A-Za-z0-9_])%s(?![A-Za-z0-9_])' % re.escape(name),
                     text) is not None


_DEVNULL = open(os.devnull, 'w')


class CompileReached(Exception):
    """Raised instead of building an extension module: the set-up path ran to
    the point where the generated code would be compiled = accepted."""


def _no_compile(*a, **k):
    raise CompileReached('C20 must never compile anything')


def _guard():
    """Belt and braces: make compilation impossible in this process.  The
    driver methods (SPHCompiler.compile, SPHEvaluator, Solver.setup) stay
    as they are; what they would hand to the C compiler raises instead."""
    from pysph.sph.acceleration_eval_cython_helper import \
        AccelerationEvalCythonHelper
    from compyle.ext_module import ExtModule
    if AccelerationEvalCythonHelper.compile is not _no_compile:
        AccelerationEvalCythonHelper.compile = _no_compile
        ExtModule.build = _no_compile
        ExtModule.load = _no_compile


VIAS = ['construct', 'compile', 'evaluator', 'solver']


def attempt(arrays, equations, kernel, integrator=None, codegen=False,
            via='construct'):
    """Run the set-up path; -> None when accepted, else the exception.

    construct: AccelerationEval(s) + SPHCompiler(...) (+ the integrator code
               generation compile() would perform first);
    compile:   SPHCompiler(...).compile() up to the point where the generated
               source is handed to the build step;
    evaluator: pysph.tools.sph_evaluator.SPHEvaluator(...) likewise;
    solver:    pysph.solver.solver.Solver(...).setup(...) likewise."""
    from pysph.sph.acceleration_eval import make_acceleration_evals
    from pysph.sph.sph_compiler import SPHCompiler
    _guard()
    try:
        with contextlib.redirect_stdout(_DEVNULL):
            if via == 'evaluator':
                from pysph.tools.sph_evaluator import SPHEvaluator
                SPHEvaluator(arrays, equations, dim=2, kernel=kernel)
                raise AssertionError('SPHEvaluator did not reach compile')
            if via == 'solver':
                from pysph.solver.solver import Solver
                solver = Solver(dim=2, integrator=integrator, kernel=kernel,
                                dt=1e-3, tf=1e-3)
                solver.setup(arrays, equations, None, kernel)
                raise AssertionError('Solver.setup did not reach compile')
            evals = make_acceleration_evals(arrays, equations, kernel)
            comp = SPHCompiler(evals, integrator)
            if via == 'compile':
                comp.compile()
                raise AssertionError('compile() did not reach the build')
            if integrator is not None:
                comp.integrator_helper.get_code()
            if codegen:
                for h in comp.acceleration_eval_helpers:
                    h.get_code()
    except CompileReached:
        return None
    except Exception as ex:
        return ex
    return None


def _always(t, dt):
    return True


GOPTS = [
    dict(),
    dict(iterate=True, max_iterations=3, min_iterations=1),
    dict(real=False, update_nnps=True),
    dict(start_idx=0, stop_idx=1),
    dict(condition=_always, name='c20grp'),
]


def place(block, fillers_before, fillers_after, placement, stage, good_dest,
          wrap=(0, 0), stages=2, gopts=0):
    """block: the equation under test (with its complete twin, if any).
    wrap = (head, tail): plain top-level filler groups before / after the
    structure holding the block (so the block's group is not the last one,
    and groups with sub-groups stand next to groups without)."""
    from pysph.sph.equation import Group, MultiStageEquations
    from checks.c20_eqs import C20Filler

    def mk():
        return C20Filler(dest=good_dest, sources=[good_dest])
    kw = GOPTS[gopts]
    seq = list(fillers_before) + list(block) + list(fillers_after)
    if placement == 'flat':
        return seq
    head = [Group([mk()]) for _ in range(wrap[0])]
    tail = [Group([mk()]) for _ in range(wrap[1])]
    if placement == 'group':
        return head + [Group([f]) for f in fillers_before] + [Group(
            list(block) + list(fillers_after), **kw)] + tail
    if placement == 'subgroup':
        subs = [Group([f]) for f in fillers_before] + \
            [Group(list(block), **kw)] + \
            [Group([f]) for f in fillers_after]
        return head + [Group(subs)] + tail
    # multistage: the block sits in stage `stage` of `stages`
    mine = head + [Group(seq, **kw)] + tail
    stg = [[mk()] for _ in range(stages)]
    stg[stage % stages] = mine
    return MultiStageEquations(stg)


# ------------------------------------------------------------ equation case
def layout(nsrc, dest_pos):
    """-> dest name, list of source names."""
    srcs = ['s%d' % i for i in range(nsrc)]
    if 0 <= dest_pos < nsrc:
        srcs[dest_pos] = 'd0'
    return 'd0', srcs


def check_equation(case):
    """-> failures, labels, nontrivial, skipped-reason"""
    from pysph.base.kernels import CubicSpline
    from checks.c20_eqs import C20Filler
    labels, fails = [], []
    cpath = case['cls']
    if cpath == 'gen':
        cls = gen_class(case['hooks'])
        labels.append('generated')
    else:
        cls = load_class(cpath)
        labels.append('toy' if cpath.startswith(TOYMOD) else
                      'shipped:equation')
    cname = cls.__name__
    dest, srcs = layout(case['nsrc'], case['dest_pos'])
    fault = case['fault']
    ftype = fault['type']
    labels.append('fault:' + ftype)
    labels.append('placement:' + case['placement'])
    good_dest, good_srcs = dest, list(srcs)
    bad = None
    if ftype == 'bad_dest':
        bad = mangle(dest, fault['how'])
        dest = bad
    elif ftype == 'bad_source':
        pos = fault['pos'] % len(srcs)
        bad = mangle(srcs[pos], fault['how'])
        srcs[pos] = bad
    try:
        eq = instantiate(cls, dest, srcs)
    except Exception as ex:
        return [], labels, False, 'cannot instantiate %s: %r' % (cname, ex)
    if eq.sources is None:
        good_srcs = []
        if ftype == 'bad_source':
            return [], labels, False, 'no sources'
    elif ftype != 'bad_source' and list(eq.sources) != srcs:
        return [], labels, False, 'class rewrites its sources'
    if eq.dest != dest:
        return [], labels, False, 'class rewrites its dest'
    ed, es, idd, ids, syms = equation_needs(eq)
    if not good_srcs:
        es, idd, ids, syms = set(), set(), set(), []
    labels.extend('sym:' + s for s in syms)
    arrays = [good_dest] + [s for s in good_srcs if s != good_dest]
    nb, na = case.get('fill', [0, 0])
    use_fill = bool(nb or na or case['placement'] == 'multistage' or (
        case['placement'] != 'flat' and any(case.get('wrap', [0, 0]))))
    need = {}
    for a in arrays:
        n = set([FILL]) if use_fill else set()
        if a == good_dest:
            n |= ed | idd
        if a in good_srcs:
            n |= es | ids
        need[a] = n
    consts = case.get('consts', [])
    minimal = bool(case.get('minimal'))
    if consts:
        labels.append('arrays:constants')
    if minimal:
        labels.append('arrays:minimal')
        if ftype == 'none' and not use_fill and any(
                set(BUILTIN) <= need[a] for a in arrays):
            # some array holds exactly what the equation uses
            labels.append('arrays:exact')
    nontrivial = False
    klass = {}
    target = rname = None
    if ftype == 'remove':
        target = arrays[fault['array'] % len(arrays)]
        rname = fault['name']
        if rname not in need[target] or rname == FILL:
            return [], labels, False, 'name not needed on that array'
        roles = []
        explicit = False
        if target == good_dest:
            roles.append('dest')
            explicit |= rname in ed
        if target in good_srcs:
            roles.append('source')
            explicit |= rname in es
            sp = good_srcs.index(target)
            labels.append('src_pos:%d' % sp)
            if sp > 0:
                nontrivial = True
        role = '+'.join(roles)
        kind_need = 'explicit' if explicit else 'implicit'
        labels += ['need:' + kind_need, 'role:' + role]
        if not explicit:
            nontrivial = True
        klass = dict(need=kind_need)
        role_txt = role
    pas = []
    for a in arrays:
        pas.append(make_array(a, need[a], consts, minimal,
                              rname if a == target else None))
    if case.get('bystander'):
        pas.append(make_array('zz', [], (), True))
    # a complete instance of the same class on an array of its own, before
    # (1) or after (2) the instance under test
    block = [eq]
    twin = int(case.get('twin', 0))
    if twin:
        try:
            teq = instantiate(cls, 't0', ['t0'])
        except Exception:
            teq = None
        if teq is not None and teq.dest == 't0' and (
                teq.sources is None or list(teq.sources) == ['t0']):
            pas.append(make_array(
                't0', ed | idd | es | ids | (set([FILL]) if use_fill else
                                             set()), consts, minimal))
            block = [teq, eq] if twin == 1 else [eq, teq]
            labels.append('struct:twin_before' if twin == 1 else
                          'struct:twin_after')
    aperm = int(case.get('aperm', 0))
    if aperm and len(pas) > 1:
        pas = pas[::-1] if aperm == 1 else pas[1:] + pas[:1]
        labels.append('arrays:permuted')
    # complete filler equations around the equation under test
    fsrc = good_srcs if good_srcs else [good_dest]
    fb = [C20Filler(dest=good_dest, sources=list(fsrc)) for _ in range(nb)]
    fa = [C20Filler(dest=fsrc[-1], sources=[good_dest]) for _ in range(na)]
    if nb or na:
        labels.append('filler')
    placement = case['placement']
    wrap = case.get('wrap', [0, 0])
    nstages = int(case.get('stages', 2))
    gopts = int(case.get('gopts', 0))
    if placement != 'flat':
        if wrap[1]:
            labels.append('struct:eq_group_not_last')
        if placement == 'subgroup' and (wrap[0] or wrap[1]):
            labels.append('struct:mixed_subgroups')
        if gopts:
            labels.append('struct:group_opts')
        if placement == 'multistage' and nstages > 2:
            labels.append('struct:stages3')
    eqs = place(block, fb, fa, placement, case.get('stage', 1),
                good_dest, wrap, nstages, gopts)
    kernel = CubicSpline(dim=2)
    via = case.get('via', 'construct')
    if via == 'evaluator' and placement == 'multistage':
        via = 'construct'
    labels.append('via:' + via)
    err = attempt(pas, eqs, kernel, None, codegen=bool(case.get('codegen')),
                  via=via)
    where = '%s in %s, dest=%s sources=%s' % (cname, case['placement'],
                                               dest, srcs)
    if ftype == 'none':
        if err is not None:
            fails.append(Failure(
                'AccelerationEval', 'complete_rejected',
                'complete problem (%s) rejected: %r' % (where, err),
                dict(exc=type(err).__name__,
                     stage='codegen' if (case.get('codegen') or
                                         via != 'construct') else 'setup',
                     exact_array='arrays:exact' in labels),
                expected='accepted', observed=repr(err)))
        return fails, labels, nontrivial, None
    if ftype == 'remove':
        what = "'%s' removed from array '%s' (%s, needed %sly)" % (
            rname, target, role_txt, klass['need'])
        must = [cname, rname]
    else:
        what = "%s misspelt as '%s'" % (ftype[4:], bad)
        must = [bad]
        klass = dict(fault=ftype)
    if err is None:
        fails.append(Failure(
            'AccelerationEval', 'accepted',
            '%s: %s, yet AccelerationEval and SPHCompiler were constructed '
            'without an error' % (where, what), klass,
            expected='RuntimeError naming %s' % must, observed='accepted'))
    elif not isinstance(err, RuntimeError):
        fails.append(Failure(
            'AccelerationEval', 'wrong_exception',
            '%s: %s -> %r' % (where, what, err),
            dict(klass, exc=type(err).__name__),
            expected='RuntimeError naming %s' % must, observed=repr(err)))
    else:
        msg = str(err)
        miss = [m for m in must if not word_in(m, msg)]
        if miss:
            fails.append(Failure(
                'AccelerationEval', 'message',
                '%s: %s; the error does not name %s: %r' % (
                    where, what, miss, msg), klass,
                expected='message naming %s' % must, observed=msg))
    return fails, labels, nontrivial, None


# ------------------------------------------------------------- stepper case
def check_stepper(case):
    from pysph.base.kernels import CubicSpline
    from pysph.sph import integrator as integ_mod
    from pysph.sph.integrator_step import EulerStep
    from checks.c20_eqs import C20Filler
    labels, fails = [], []
    labels.append('toy:stepper' if case['cls'].startswith(TOYMOD) else
                  'shipped:stepper')
    cls = load_class(case['cls'])
    cname = cls.__name__
    try:
        stepper = cls()
    except Exception as ex:
        return [], labels, False, 'cannot instantiate %s: %r' % (cname, ex)
    needs = stepper_needs(stepper)
    narr = case['narr']
    pos = case['pos'] % narr
    names = ['p%d' % i for i in range(narr)]
    fault = case['fault']
    ftype = fault['type']
    labels.append('fault:' + ftype)
    rname = None
    nontrivial = False
    if ftype == 'remove':
        rname = fault['name']
        if rname not in needs:
            return [], labels, False, 'name not needed by stepper'
        labels.append('stepper:remove')
        if narr > 1:
            labels.append('stepper:other_has_it')
            nontrivial = True
    euler_needs = stepper_needs(EulerStep())
    consts = [c for c in case.get('consts', []) if c in needs and
              c not in DEFAULT_PROPS and c not in euler_needs]
    if consts:
        labels.append('stepper:constants')
    pas = []
    for i, a in enumerate(names):
        props = set(needs) | euler_needs | set([FILL])
        pas.append(make_array(a, props, consts, False,
                              rname if i == pos else None))
    key = names[pos]
    if ftype == 'bad_stepper':
        key = mangle(key, fault['how'])
    others = case.get('others', 'none')
    pairs = [(pos, key, stepper)]
    for i, a in enumerate(names):
        if i != pos and others != 'none':
            pairs.append((i, a, cls() if others == 'same' else EulerStep()))
    # order of the keyword arguments = order in which the helper walks the
    # steppers: the stepper under test first (as given), or by array index
    order = case.get('order', 'faulty_first')
    if order != 'faulty_first':
        pairs.sort(key=lambda kv: kv[0], reverse=(order == 'reverse'))
    pairs = [(k, v) for _, k, v in pairs]
    steppers = dict(pairs)
    if len(pairs) > 1:
        at = [k for k, _ in pairs].index(key)
        labels.append('stepper_pos:' + (
            'first' if at == 0 else
            'last' if at == len(pairs) - 1 else 'middle'))
    icls = getattr(integ_mod, case.get('integrator', 'PECIntegrator'))
    integrator = icls(**steppers)
    eqs = [C20Filler(dest=names[0], sources=[names[0]])]
    via = case.get('via', 'construct')
    labels.append('via:' + via)
    err = attempt(pas, eqs, CubicSpline(dim=2), integrator, via=via)
    where = '%s on %s of %s (%s)' % (cname, names[pos], names,
                                     icls.__name__)
    if ftype == 'none':
        if err is not None:
            fails.append(Failure(
                'IntegratorCythonHelper', 'complete_rejected',
                'complete problem (%s) rejected: %r' % (where, err),
                dict(exc=type(err).__name__), expected='accepted',
                observed=repr(err)))
        return fails, labels, nontrivial, None
    if ftype == 'remove':
        what = "'%s' removed from array '%s'" % (rname, names[pos])
        must = [cname, rname]
        klass = dict(fault='remove')
    else:
        what = "stepper array misspelt as '%s'" % key
        must = [key]
        klass = dict(fault=ftype)
    if err is None:
        fails.append(Failure(
            'IntegratorCythonHelper', 'accepted',
            '%s: %s, yet SPHCompiler was constructed and the integrator '
            'code generated without an error' % (where, what), klass,
            expected='RuntimeError naming %s' % must, observed='accepted'))
    elif not isinstance(err, RuntimeError):
        fails.append(Failure(
            'IntegratorCythonHelper', 'wrong_exception',
            '%s: %s -> %r' % (where, what, err),
            dict(klass, exc=type(err).__name__),
            expected='RuntimeError naming %s' % must, observed=repr(err)))
    else:
        msg = str(err)
        miss = [m for m in must if not word_in(m, msg)]
        if miss:
            fails.append(Failure(
                'IntegratorCythonHelper', 'message',
                '%s: %s; the error does not name %s: %r' % (
                    where, what, miss, msg), klass,
                expected='message naming %s' % must, observed=msg))
    return fails, labels, nontrivial, None


def check(case):
    if case['kind'] == 'stepper':
        return check_stepper(case)
    return check_equation(case)


def execute(case):
    fails, labels, nt, skip = check(case)
    return Outcome(fails, sorted(set(labels)), nt and not skip,
                   skipped=bool(skip))


# -------------------------------------------------------------- enumeration
STRUCTS = [
    dict(),
    dict(wrap=[0, 1]),
    dict(twin=1),
    dict(wrap=[1, 1], gopts=1),
    dict(aperm=1),
    dict(twin=2, via='compile'),
    dict(wrap=[1, 0], gopts=2, via='evaluator'),
    dict(stages=3, stage=1, wrap=[0, 2], gopts=3),
    dict(aperm=2, gopts=4, via='compile'),
    dict(stages=3, stage=2, twin=1),
    dict(stages=3, stage=0, wrap=[0, 1]),
]


def variants(tier):
    if tier == 'quick':
        return [(1, -1), (1, 0), (2, -1), (2, 1), (3, -1), (3, 1), (3, 2)]
    return [(n, d) for n in (1, 2, 3) for d in range(-1, n)]


def enumerate_equation(cpath, tier, emit):
    """Emit every case for one equation class; -> skip reason or None."""
    cls = load_class(cpath)
    try:
        eq = instantiate(cls, 'd0', ['s0'])
    except Exception as ex:
        return 'cannot instantiate: %r' % (ex,)
    base = dict(kind='eq', cls=cpath)
    seen = set()
    kstruct = [sum(map(ord, cpath))]
    for nsrc, dpos in variants(tier):
        dest, srcs = layout(nsrc, dpos)
        try:
            eq = instantiate(cls, dest, srcs)
        except Exception as ex:
            return 'cannot instantiate: %r' % (ex,)
        has_src = eq.sources is not None
        if not has_src:
            nsrc, dpos, srcs = 1, -1, []
        key = (nsrc, dpos)
        if key in seen:
            continue
        seen.add(key)
        ed, es, idd, ids, _ = equation_needs(eq)
        if not has_src:
            es, idd, ids = set(), set(), set()
        arrays = [dest] + [s for s in srcs if s != dest]
        for pl in PLACEMENTS:
            b = dict(base, nsrc=nsrc, dest_pos=dpos, placement=pl,
                     fill=[1, 1] if pl != 'flat' else [0, 0], stage=1,
                     bystander=True)

            def var(fault_free=False):
                # the structure around the equation cycles through STRUCTS
                # (same number of cases as without)
                kstruct[0] += 1
                v = dict(STRUCTS[kstruct[0] % len(STRUCTS)])
                if fault_free and tier == 'quick':
                    v.pop('via', None)    # code generation costs 50 ms
                return v
            emit(dict(b, fault=dict(type='none'), **var(True)))
            for how in (MANGLE if tier != 'quick' else MANGLE[:1]):
                emit(dict(b, fault=dict(type='bad_dest', how=how), **var()))
                for j in range(len(srcs)):
                    emit(dict(b, fault=dict(type='bad_source', pos=j,
                                            how=how), **var()))
            for ai, a in enumerate(arrays):
                n = set()
                if a == dest:
                    n |= ed | idd
                if a in srcs:
                    n |= es | ids
                for name in sorted(n):
                    f = dict(type='remove', array=ai, name=name)
                    emit(dict(b, fault=f, **var()))
                    if tier != 'quick' and pl == 'multistage':
                        emit(dict(b, fault=f, stage=0, fill=[0, 2]))
        nondef = sorted((ed | es | idd | ids) - set(DEFAULT_PROPS))
        plain = dict(base, nsrc=nsrc, dest_pos=dpos, placement='flat',
                     fill=[0, 0], stage=1, bystander=False)
        if nondef:
            emit(dict(plain, consts=nondef, fault=dict(type='none')))
            emit(dict(plain, consts=nondef[1:], placement='group',
                      fault=dict(type='remove', array=0 if nondef[0] in
                                 (ed | idd) else len(arrays) - 1,
                                 name=nondef[0])))
        emit(dict(plain, minimal=True, fault=dict(type='none')))
        if tier != 'quick' or len(seen) == 1:
            emit(dict(base, nsrc=nsrc, dest_pos=dpos, placement='group',
                      fill=[0, 0], stage=0, bystander=False, codegen=True,
                      fault=dict(type='none')))
    return None


def enumerate_stepper(cpath, tier, emit):
    cls = load_class(cpath)
    try:
        needs = stepper_needs(cls())
    except Exception as ex:
        return 'cannot instantiate: %r' % (ex,)
    base = dict(kind='stepper', cls=cpath, integrator='PECIntegrator')
    # (arrays, position of the stepper under test, other steppers, order of
    # the keyword arguments, path)
    lay = [(1, 0, 'none', 'faulty_first', 'construct'),
           (2, 0, 'euler', 'natural', 'construct'),      # first of two
           (2, 1, 'euler', 'natural', 'solver'),         # last of two
           (3, 1, 'same', 'natural', 'compile')]         # middle of three
    if tier != 'quick':
        lay += [(2, 0, 'none', 'natural', 'construct'),
                (2, 0, 'same', 'reverse', 'construct'),
                (3, 2, 'euler', 'natural', 'construct'),
                (3, 0, 'none', 'natural', 'compile'),
                (3, 1, 'same', 'faulty_first', 'construct'),
                (3, 2, 'same', 'reverse', 'solver'),
                (2, 1, 'euler', 'faulty_first', 'construct')]
    nondef = sorted(needs - set(DEFAULT_PROPS))
    for narr, pos, others, order, via in lay:
        b = dict(base, narr=narr, pos=pos, others=others, order=order,
                 via=via)
        emit(dict(b, fault=dict(type='none')))
        emit(dict(b, fault=dict(type='bad_stepper', how='append')))
        for k, name in enumerate(sorted(needs)):
            # the code-generating paths cost 50 ms: a few names per class
            v = via if (k < 2 or k == len(needs) - 1 or
                        tier != 'quick') else 'construct'
            emit(dict(b, via=v, fault=dict(type='remove', name=name)))
        if nondef and narr > 1:
            # non-default names supplied as constants
            emit(dict(b, consts=nondef, fault=dict(type='none')))
            emit(dict(b, consts=nondef[1:],
                      fault=dict(type='remove', name=nondef[0])))
            emit(dict(b, consts=nondef,
                      fault=dict(type='remove', name=nondef[-1])))
    return None


def all_units():
    eqs, steps = discover()
    from checks import c20_eqs
    units = [('eq', k) for k in sorted(eqs)]
    units += [('eq', TOYMOD + '.' + c.__name__)
              for c in c20_eqs.TOY_CLASSES]
    units += [('stepper', k) for k in sorted(steps)]
    units += [('stepper', TOYMOD + '.' + c.__name__)
              for c in c20_eqs.TOY_STEPPERS]
    return units


def run_enumeration(spec, ctx, stats):
    units = all_units()
    mine = [u for i, u in enumerate(units) if i % spec['of'] == spec['part']]
    seen_sig = set()
    skipped = {}

    def emit(case):
        if ctx is not None:
            ctx.journal(case)
        fails, labels, nt, skip = check(case)
        out = Outcome(fails, sorted(set(labels)), nt and not skip,
                      skipped=bool(skip))
        stats.record(case, out)
        for f in fails:
            if f.sig() in seen_sig:
                stats.duplicates += 1
                continue
            seen_sig.add(f.sig())
            stats.failures.append(f.as_dict(case))

    for kind, cpath in mine:
        if kind == 'eq':
            why = enumerate_equation(cpath, spec['tier'], emit)
        else:
            why = enumerate_stepper(cpath, spec['tier'], emit)
        if why:
            skipped[cpath] = why
    stats.label('enum:done')
    stats.extra['classes_enumerated'] = len(mine) - len(skipped)
    stats.extra['skipped_classes'] = skipped
    if spec['part'] == 0:
        stats.extra['discovered'] = dict(
            equations=len(_DISC['eq']), steppers=len(_DISC['st']),
            import_errors=_DISC['errors'])


# ---------------------------------------------------------------- generator
POOL = ['x', 'y', 'z', 'h', 'u', 'v', 'w', 'rho', 'm', 'p', 'q0', 'q1',
        'q2', 'q3', 'c20k', 'tag', 'gid', 'pid',
        # names that contain / are contained in other names, mixed case,
        # underscores (substring or case-folded matching would go wrong)
        'x0', 'ax', 'arho', 'rho0', 'h0', 'V', 'dt_cfl', 'q', 'Q0']
EXTRA_ARGS = {
    'initialize': ['t', 'dt'],
    'initialize_pair': ['t', 'dt'],
    'loop': ['t', 'dt', 'SPH_KERNEL', 'NBRS', 'N_NBRS'],
    'loop_all': ['t', 'dt', 'SPH_KERNEL', 'NBRS', 'N_NBRS'],
    'post_loop': ['t', 'dt'],
}


@st.composite
def gen_hooks(draw):
    hooks = {}
    chosen = draw(st.lists(st.sampled_from(HOOKS), min_size=1, max_size=5,
                           unique=True))
    for h in chosen:
        args = []
        if h != 'initialize_pair' or draw(st.booleans()):
            args.append('d_idx')
        dn = draw(st.lists(st.sampled_from(POOL), max_size=4, unique=True))
        args += ['d_' + n for n in dn]
        if h in ('initialize_pair', 'loop', 'loop_all'):
            if h == 'loop' and draw(st.integers(0, 4)) > 0:
                args.append('s_idx')
            sn = draw(st.lists(st.sampled_from(POOL), max_size=4,
                               unique=True))
            args += ['s_' + n for n in sn]
        if h == 'loop':
            args += draw(st.lists(st.sampled_from(SYMBOLS), max_size=4,
                                  unique=True))
        args += draw(st.lists(st.sampled_from(EXTRA_ARGS[h]), max_size=2,
                              unique=True))
        hooks[h] = draw(st.permutations(args))
    return hooks


def needs_from_hooks(hooks):
    ed, es, idd, ids = set(), set(), set(), set()
    for h, args in hooks.items():
        for a in args:
            if a.startswith('d_') and a != 'd_idx':
                ed.add(a[2:])
            elif a.startswith('s_') and a != 's_idx':
                es.add(a[2:])
            elif h == 'loop' and a in IMPLICIT:
                idd.update(IMPLICIT[a][0])
                ids.update(IMPLICIT[a][1])
    return ed, es, idd, ids


@st.composite
def gen_case(draw, toy_needs):
    if draw(st.integers(0, 3)) == 0:
        cpath = draw(st.sampled_from(sorted(toy_needs)))
        hooks = None
        ed, es, idd, ids, has_src = toy_needs[cpath]
    else:
        cpath = 'gen'
        hooks = draw(gen_hooks())
        ed, es, idd, ids = needs_from_hooks(hooks)
        has_src = True
    nsrc = draw(st.integers(1, 3))
    dpos = draw(st.integers(-1, nsrc - 1))
    dest, srcs = layout(nsrc, dpos)
    if not has_src:
        nsrc, dpos, srcs = 1, -1, []
        es, idd, ids = set(), set(), set()
    arrays = [dest] + [s for s in srcs if s != dest]
    case = dict(kind='eq', cls=cpath, nsrc=nsrc, dest_pos=dpos,
                placement=draw(st.sampled_from(PLACEMENTS)),
                fill=[draw(st.integers(0, 2)), draw(st.integers(0, 2))],
                stage=draw(st.integers(0, 1)),
                bystander=draw(st.booleans()),
                minimal=draw(st.integers(0, 2)) == 0)
    if hooks is not None:
        case['hooks'] = hooks
    # structure around the equation, order of the arrays, path
    if draw(st.booleans()):
        case['wrap'] = [draw(st.integers(0, 2)), draw(st.integers(0, 2))]
    if draw(st.booleans()):
        case['gopts'] = draw(st.integers(0, len(GOPTS) - 1))
    if case['placement'] == 'multistage' and draw(st.booleans()):
        case['stages'] = 3
        case['stage'] = draw(st.integers(0, 2))
    if draw(st.integers(0, 2)) == 0:
        case['twin'] = draw(st.integers(1, 2))
    if draw(st.integers(0, 2)) == 0:
        case['aperm'] = draw(st.integers(1, 2))
    if hooks is None and draw(st.booleans()):
        # generated classes have no source file: no code generation
        case['via'] = draw(st.sampled_from(['compile', 'evaluator']))
    allneeded = sorted((ed | es | idd | ids) - set(DEFAULT_PROPS))
    if allneeded and draw(st.booleans()):
        case['consts'] = draw(st.lists(st.sampled_from(allneeded),
                                       unique=True, max_size=3))
    ft = draw(st.sampled_from(['remove'] * 7 + ['none', 'none', 'bad_dest',
                                                 'bad_source']))
    if ft == 'bad_source' and not srcs:
        ft = 'bad_dest'
    if ft == 'remove':
        ai = draw(st.integers(0, len(arrays) - 1))
        a = arrays[ai]
        n = set()
        if a == dest:
            n |= ed | idd
        if a in srcs:
            n |= es | ids
        if not n:
            ft = 'none'
        else:
            case['fault'] = dict(type='remove', array=ai,
                                 name=draw(st.sampled_from(sorted(n))))
    if ft == 'none':
        case['fault'] = dict(type='none')
    elif ft == 'bad_dest':
        case['fault'] = dict(type='bad_dest',
                             how=draw(st.sampled_from(MANGLE)))
    elif ft == 'bad_source':
        case['fault'] = dict(type='bad_source',
                             pos=draw(st.integers(0, len(srcs) - 1)),
                             how=draw(st.sampled_from(MANGLE)))
    return case


@st.composite
def gen_stepper_case(draw, stepper_needs_table):
    cpath = draw(st.sampled_from(sorted(stepper_needs_table)))
    needs = stepper_needs_table[cpath]
    narr = draw(st.integers(1, 3))
    case = dict(kind='stepper', cls=cpath, narr=narr,
                pos=draw(st.integers(0, narr - 1)),
                others=draw(st.sampled_from(['none', 'euler', 'same'])),
                order=draw(st.sampled_from(['faulty_first', 'natural',
                                            'reverse'])),
                integrator=draw(st.sampled_from(
                    ['PECIntegrator', 'EPECIntegrator',
                     'TVDRK3Integrator'])),
                via=draw(st.sampled_from(['construct', 'construct',
                                          'compile', 'solver'])))
    nondef = sorted(set(needs) - set(DEFAULT_PROPS))
    if nondef and draw(st.booleans()):
        case['consts'] = draw(st.lists(st.sampled_from(nondef), unique=True,
                                       max_size=4))
    ft = draw(st.sampled_from(['remove'] * 6 + ['none', 'bad_stepper',
                                                 'bad_stepper']))
    if ft == 'remove' and not needs:
        ft = 'none'
    if ft == 'remove':
        case['fault'] = dict(type='remove',
                             name=draw(st.sampled_from(sorted(needs))))
    elif ft == 'none':
        case['fault'] = dict(type='none')
    else:
        case['fault'] = dict(type='bad_stepper',
                             how=draw(st.sampled_from(MANGLE)))
    return case


def stepper_table():
    out = {}
    for kind, cpath in all_units():
        if kind != 'stepper':
            continue
        try:
            out[cpath] = sorted(stepper_needs(load_class(cpath)()))
        except Exception:
            pass
    return out


def toy_table():
    from checks import c20_eqs
    out = {}
    for c in c20_eqs.TOY_CLASSES:
        eq = instantiate(c, 'd0', ['s0'])
        ed, es, idd, ids, _ = equation_needs(eq)
        out[TOYMOD + '.' + c.__name__] = (ed, es, idd, ids,
                                          eq.sources is not None)
    return out


# ------------------------------------------------------------------- driver
def plan(ctx):
    tier = ctx['tier']
    k = 16
    ngen = 500 if tier == 'quick' else 50000
    shards = [dict(name='enum-%02d' % i, kind='enum', part=i, of=k,
                   tier=tier) for i in range(k)]
    shards += [dict(name='gen-%02d' % i, kind='gen',
                    max_examples=-(-ngen // k)) for i in range(k)]
    return shards


def run_shard(spec, ctx):
    stats = Stats()
    if spec['kind'] == 'enum':
        run_enumeration(spec, ctx, stats)
        return stats.result()
    strat = st.one_of(gen_case(toy_table()), gen_case(toy_table()),
                      gen_case(toy_table()),
                      gen_stepper_case(stepper_table()))
    search(strat, execute,
           derive_seed(ctx.seed, 'C20', spec['name']),
           spec['max_examples'], stats, shrink=True, journal=ctx.journal)
    return stats.result()


def run_case(case, component, ctx):
    fails, _, _, skip = check(case)
    if skip:
        raise RuntimeError('replay case no longer applies: %s' % skip)
    return [f.as_dict(case) for f in fails]
