"""C20 - incomplete problems are rejected at set-up, never compiled and run.

Every shipped Equation / IntegratorStep subclass (and toy / generated
equation classes) is placed in a problem from which exactly one thing it
needs is missing - a property named by a d_*/s_* argument of a hook, a
property needed only through a precomputed pair symbol, or the array a
dest/source/stepper keyword names - and the set-up path
(AccelerationEval -> SPHCompiler construction -> integrator code generation)
must raise a RuntimeError naming the class and the missing name.  Nothing is
ever compiled or executed here: being accepted IS the violation.
"""
import contextlib
import importlib
import inspect
import os
import pkgutil
import re

from hypothesis import strategies as st

from vlib.hyp import Failure, Outcome, Stats, search, derive_seed, canon

RULE = ('cases = (equation or stepper class) x array layout (1-3 sources, '
        'destination separate or one of the sources; 1-3 stepped arrays) x '
        'one fault (one needed name removed from one array | misspelt dest | '
        'misspelt source | misspelt stepper array | none) x placement (flat '
        'list, Group, sub-Group, MultiStageEquations stage) x complete filler '
        'equations around it. Shipped classes (288 equations, 36 steppers) '
        'and 29 toy classes are enumerated exhaustively over needed names x '
        'arrays x placements; generated classes (random hooks/arguments/pair '
        'symbols, some names supplied as constants, minimal arrays) are '
        'searched with Hypothesis. The needed names are computed by the check '
        'from inspect.signature of the hooks plus the documented formulas of '
        'the pair symbols. Non-trivial = the removed name is needed on that '
        'array only through a pair symbol, or it is removed from a non-first '
        'source (steppers: from an array while another array has it); '
        'distinct by case hash.')
ASSUMPTIONS = [
    'requirements of pair symbols follow their documented formulas '
    '(docs/source/design/equations.rst): WI/DWI/GHI/WDASHI need h on the '
    'destination only, WJ/DWJ/GHJ/WDASHJ on the source only; pair symbols '
    'are honoured only as arguments of `loop`',
    'hooks inspected: initialize, initialize_pair, loop, loop_all, post_loop; '
    'reduce/py_initialize/converged take the array object and are excluded',
    'stepper requirements are checked by the integrator code generator '
    '(SPHCompiler(...).integrator_helper.get_code(), the step compile() '
    'performs before compiling); that call is part of the set-up path',
    'an equation instantiated without sources is only checked on its '
    'destination',
    'a name supplied as a constant satisfies a requirement just as a '
    'property does',
    'message check: the class name and the missing name (as a whole word) '
    'must occur in the RuntimeError text; for a misspelt array the bad array '
    'name must occur',
]
SYMBOLS = ['HIJ', 'EPS', 'XIJ', 'R2IJ', 'RIJ', 'VIJ', 'RHOIJ', 'RHOIJ1',
           'WIJ', 'WI', 'WJ', 'WDP', 'DWIJ', 'DWI', 'DWJ', 'GHI', 'GHJ',
           'GHIJ', 'WDASHI', 'WDASHJ', 'WDASHIJ']
PLACEMENTS = ['flat', 'group', 'subgroup', 'multistage']
ESSENTIAL_LABELS = {'all': (
    ['need:explicit', 'need:implicit', 'role:dest', 'role:source',
     'role:dest+source', 'src_pos:0', 'src_pos:1', 'src_pos:2',
     'fault:none', 'fault:remove', 'fault:bad_dest', 'fault:bad_source',
     'fault:bad_stepper', 'stepper:remove', 'stepper:other_has_it',
     'shipped:equation', 'shipped:stepper', 'toy', 'generated',
     'arrays:constants', 'arrays:minimal', 'arrays:exact', 'filler',
     'enum:done']
    + ['placement:' + p for p in PLACEMENTS]
    + ['sym:' + s for s in SYMBOLS])}
EXHAUSTIVE = {'quick': False, 'thorough': False}
SHARD_TIMEOUT = {'quick': 900, 'thorough': 4 * 3600}

HOOKS = ('initialize', 'initialize_pair', 'loop', 'loop_all', 'post_loop')
XYZ = ('x', 'y', 'z')
XYZH = ('x', 'y', 'z', 'h')
UVW = ('u', 'v', 'w')
# pair symbol -> (names needed on the destination, on every source); from the
# documented formulas, dependencies expanded by hand.
IMPLICIT = {
    'HIJ': (('h',), ('h',)), 'EPS': (('h',), ('h',)),
    'XIJ': (XYZ, XYZ), 'R2IJ': (XYZ, XYZ), 'RIJ': (XYZ, XYZ),
    'VIJ': (UVW, UVW),
    'RHOIJ': (('rho',), ('rho',)), 'RHOIJ1': (('rho',), ('rho',)),
    'WIJ': (XYZH, XYZH), 'DWIJ': (XYZH, XYZH), 'GHIJ': (XYZH, XYZH),
    'WDASHIJ': (XYZH, XYZH), 'WDP': (XYZH, XYZH),
    'WI': (XYZH, XYZ), 'DWI': (XYZH, XYZ), 'GHI': (XYZH, XYZ),
    'WDASHI': (XYZH, XYZ),
    'WJ': (XYZ, XYZH), 'DWJ': (XYZ, XYZH), 'GHJ': (XYZ, XYZH),
    'WDASHJ': (XYZ, XYZH),
}
assert sorted(IMPLICIT) == sorted(SYMBOLS)
DEFAULT_PROPS = ('x', 'y', 'z', 'u', 'v', 'w', 'm', 'h', 'rho', 'p',
                 'au', 'av', 'aw', 'gid', 'pid', 'tag')
BUILTIN = ('gid', 'pid', 'tag')
FILL = 'c20fill'
TOYMOD = 'checks.c20_eqs'
# constructor arguments that cannot be "a positive float"
OVERRIDES = {
    ('MonaghanKajtarBoundaryForce', 'K'): 1.0,
    ('MonaghanKajtarBoundaryForce', 'beta'): 2.0,
    ('MonaghanKajtarBoundaryForce', 'h'): 0.1,
}
MANGLE = ['append', 'upper', 'drop']


# ----------------------------------------------------------------- discovery
_DISC = {}


def discover():
    """All Equation / IntegratorStep subclasses defined under pysph.sph."""
    if _DISC:
        return _DISC['eq'], _DISC['st']
    import pysph.sph
    from pysph.sph.equation import Equation
    from pysph.sph.integrator_step import IntegratorStep
    eqs, steps, errors = {}, {}, []
    for m in pkgutil.walk_packages(pysph.sph.__path__, 'pysph.sph.'):
        if '.tests' in m.name:
            continue
        try:
            mod = importlib.import_module(m.name)
        except BaseException as ex:       # optional dependency missing
            errors.append('%s: %r' % (m.name, ex))
            continue
        for n, o in vars(mod).items():
            if not inspect.isclass(o) or o.__module__ != m.name:
                continue
            if issubclass(o, Equation) and o is not Equation:
                eqs[m.name + '.' + n] = o
            if issubclass(o, IntegratorStep) and o is not IntegratorStep:
                steps[m.name + '.' + n] = o
    _DISC.update(eq=eqs, st=steps, errors=errors)
    return eqs, steps


def load_class(path):
    mod, _, name = path.rpartition('.')
    return getattr(importlib.import_module(mod), name)


_GEN = {}


def gen_class(hooks):
    """Equation subclass with the given hook signatures (never compiled)."""
    from pysph.sph.equation import Equation
    key = canon(hooks)
    if key not in _GEN:
        src = ['class C20Generated(Equation):']
        for h in sorted(hooks):
            src.append('    def %s(self, %s):\n        pass' % (
                h, ', '.join(hooks[h])))
        ns = {}
        exec('\n'.join(src), {'Equation': Equation}, ns)
        _GEN[key] = ns['C20Generated']
    return _GEN[key]


def instantiate(cls, dest, sources):
    """Instance from the __init__ signature: defaults where given, dim -> 2,
    dest/sources -> array names, other required arguments -> 1.5."""
    sig = inspect.signature(cls.__init__)
    kw = {}
    for p in list(sig.parameters.values())[1:]:
        if p.kind in (p.VAR_POSITIONAL, p.VAR_KEYWORD):
            continue
        if p.name == 'dest':
            kw[p.name] = dest
        elif p.name == 'sources':
            kw[p.name] = list(sources)
        elif (cls.__name__, p.name) in OVERRIDES:
            kw[p.name] = OVERRIDES[(cls.__name__, p.name)]
        elif p.default is not inspect.Parameter.empty:
            continue
        elif p.name == 'dim':
            kw[p.name] = 2
        else:
            kw[p.name] = 1.5
    return cls(**kw)


# ------------------------------------------------ independent requirements
def _args(obj, meth):
    f = getattr(obj, meth, None)
    if f is None or not callable(f):
        return []
    return [a for a in inspect.signature(f).parameters if a != 'self']


_NEEDS = {}


def equation_needs(obj):
    """-> (explicit_d, explicit_s, implicit_d, implicit_s, symbols)"""
    key = type(obj)
    if key not in _NEEDS:
        _NEEDS[key] = _equation_needs(obj)
    ed, es, idd, ids, syms = _NEEDS[key]
    return set(ed), set(es), set(idd), set(ids), list(syms)


def _equation_needs(obj):
    ed, es = set(), set()
    for h in HOOKS:
        for a in _args(obj, h):
            if a.startswith('d_') and a != 'd_idx':
                ed.add(a[2:])
            elif a.startswith('s_') and a != 's_idx':
                es.add(a[2:])
    idd, ids, syms = set(), set(), []
    for a in _args(obj, 'loop'):
        if a in IMPLICIT:
            syms.append(a)
            idd.update(IMPLICIT[a][0])
            ids.update(IMPLICIT[a][1])
    return ed, es, idd, ids, syms


def stepper_needs(obj):
    names = set()
    for m in dir(obj):
        if m == 'initialize' or (m.startswith('stage') and
                                 m[5:].isdigit()):
            for a in _args(obj, m):
                if a[:2] in ('d_', 's_') and a not in ('d_idx', 's_idx'):
                    names.add(a[2:])
    return names


# ------------------------------------------------------------ array builder
_ARRAYS = {}


def make_array(name, props, consts=(), minimal=False, without=None):
    """Particle array with the default properties of get_particle_array plus
    `props` (when minimal: only gid/pid/tag plus `props`), minus `without`;
    names in `consts` are supplied as constants."""
    from pysph.base.utils import get_particle_array
    props = set(props)
    props.discard(without)
    consts = set(c for c in consts if c in props and c not in DEFAULT_PROPS)
    key = (name, tuple(sorted(props)), tuple(sorted(consts)), bool(minimal),
           without)
    if key in _ARRAYS:          # set-up never modifies the arrays
        return _ARRAYS[key]
    if len(_ARRAYS) > 4000:
        _ARRAYS.clear()
    add = sorted(p for p in props if p not in DEFAULT_PROPS and
                 p not in consts)
    pa = get_particle_array(name=name, additional_props=add,
                            constants=dict((c, [0.0]) for c in
                                           sorted(consts)))
    keep = (set(BUILTIN) | props) if minimal else set(DEFAULT_PROPS)
    keep.discard(without)
    for p in DEFAULT_PROPS:
        if p not in keep:
            pa.remove_property(p)
    have = set(pa.properties) | set(pa.constants)
    assert props <= have and without not in have, (name, props, have)
    _ARRAYS[key] = pa
    return pa


def mangle(name, how):
    if how == 'upper':
        return name.upper()
    if how == 'drop':
        return name[:-1]
    return name + 'x'


def word_in(name, text):
    return re.search(r'(?<![A-Za-z0-9_])%s(?![A-Za-z0-9_])' % re.escape(name),
                     text) is not None


_DEVNULL = open(os.devnull, 'w')


def _no_compile(*a, **k):
    raise AssertionError('C20 must never compile anything')


def _guard():
    """Belt and braces: make compilation impossible in this process."""
    from pysph.sph.sph_compiler import SPHCompiler
    from pysph.sph.acceleration_eval_cython_helper import \
        AccelerationEvalCythonHelper
    if SPHCompiler.compile is not _no_compile:
        SPHCompiler.compile = _no_compile
        AccelerationEvalCythonHelper.compile = _no_compile


def attempt(arrays, equations, kernel, integrator=None, codegen=False):
    """Run the set-up path; -> None when accepted, else the exception."""
    from pysph.sph.acceleration_eval import make_acceleration_evals
    from pysph.sph.sph_compiler import SPHCompiler
    _guard()
    try:
        with contextlib.redirect_stdout(_DEVNULL):
            evals = make_acceleration_evals(arrays, equations, kernel)
            comp = SPHCompiler(evals, integrator)
            if integrator is not None:
                comp.integrator_helper.get_code()
            if codegen:
                for h in comp.acceleration_eval_helpers:
                    h.get_code()
    except Exception as ex:
        return ex
    return None


def place(eq, fillers_before, fillers_after, placement, stage, good_dest):
    from pysph.sph.equation import Group, MultiStageEquations
    seq = list(fillers_before) + [eq] + list(fillers_after)
    if placement == 'flat':
        return seq
    if placement == 'group':
        return [Group([f]) for f in fillers_before] + [Group(
            [eq] + list(fillers_after))]
    if placement == 'subgroup':
        subs = [Group([f]) for f in fillers_before] + [Group([eq])] + \
            [Group([f]) for f in fillers_after]
        return [Group(subs)]
    # multistage: the equation sits in stage `stage` of two
    from checks.c20_eqs import C20Filler
    other = [C20Filler(dest=good_dest, sources=[good_dest])]
    mine = [Group(seq)]
    return MultiStageEquations([mine, other] if stage == 0 else
                               [other, mine])


# ------------------------------------------------------------ equation case
def layout(nsrc, dest_pos):
    """-> dest name, list of source names."""
    srcs = ['s%d' % i for i in range(nsrc)]
    if 0 <= dest_pos < nsrc:
        srcs[dest_pos] = 'd0'
    return 'd0', srcs


def check_equation(case):
    """-> failures, labels, nontrivial, skipped-reason"""
    from pysph.base.kernels import CubicSpline
    from checks.c20_eqs import C20Filler
    labels, fails = [], []
    cpath = case['cls']
    if cpath == 'gen':
        cls = gen_class(case['hooks'])
        labels.append('generated')
    else:
        cls = load_class(cpath)
        labels.append('toy' if cpath.startswith(TOYMOD) else
                      'shipped:equation')
    cname = cls.__name__
    dest, srcs = layout(case['nsrc'], case['dest_pos'])
    fault = case['fault']
    ftype = fault['type']
    labels.append('fault:' + ftype)
    labels.append('placement:' + case['placement'])
    good_dest, good_srcs = dest, list(srcs)
    bad = None
    if ftype == 'bad_dest':
        bad = mangle(dest, fault['how'])
        dest = bad
    elif ftype == 'bad_source':
        pos = fault['pos'] % len(srcs)
        bad = mangle(srcs[pos], fault['how'])
        srcs[pos] = bad
    try:
        eq = instantiate(cls, dest, srcs)
    except Exception as ex:
        return [], labels, False, 'cannot instantiate %s: %r' % (cname, ex)
    if eq.sources is None:
        good_srcs = []
        if ftype == 'bad_source':
            return [], labels, False, 'no sources'
    elif ftype != 'bad_source' and list(eq.sources) != srcs:
        return [], labels, False, 'class rewrites its sources'
    if eq.dest != dest:
        return [], labels, False, 'class rewrites its dest'
    ed, es, idd, ids, syms = equation_needs(eq)
    if not good_srcs:
        es, idd, ids, syms = set(), set(), set(), []
    labels.extend('sym:' + s for s in syms)
    arrays = [good_dest] + [s for s in good_srcs if s != good_dest]
    nb, na = case.get('fill', [0, 0])
    use_fill = bool(nb or na or case['placement'] == 'multistage')
    need = {}
    for a in arrays:
        n = set([FILL]) if use_fill else set()
        if a == good_dest:
            n |= ed | idd
        if a in good_srcs:
            n |= es | ids
        need[a] = n
    consts = case.get('consts', [])
    minimal = bool(case.get('minimal'))
    if consts:
        labels.append('arrays:constants')
    if minimal:
        labels.append('arrays:minimal')
        if ftype == 'none' and not use_fill and any(
                set(BUILTIN) <= need[a] for a in arrays):
            # some array holds exactly what the equation uses
            labels.append('arrays:exact')
    nontrivial = False
    klass = {}
    target = rname = None
    if ftype == 'remove':
        target = arrays[fault['array'] % len(arrays)]
        rname = fault['name']
        if rname not in need[target] or rname == FILL:
            return [], labels, False, 'name not needed on that array'
        roles = []
        explicit = False
        if target == good_dest:
            roles.append('dest')
            explicit |= rname in ed
        if target in good_srcs:
            roles.append('source')
            explicit |= rname in es
            sp = good_srcs.index(target)
            labels.append('src_pos:%d' % sp)
            if sp > 0:
                nontrivial = True
        role = '+'.join(roles)
        kind_need = 'explicit' if explicit else 'implicit'
        labels += ['need:' + kind_need, 'role:' + role]
        if not explicit:
            nontrivial = True
        klass = dict(need=kind_need)
        role_txt = role
    pas = []
    for a in arrays:
        pas.append(make_array(a, need[a], consts, minimal,
                              rname if a == target else None))
    if case.get('bystander'):
        pas.append(make_array('zz', [], (), True))
    # complete filler equations around the equation under test
    fsrc = good_srcs if good_srcs else [good_dest]
    fb = [C20Filler(dest=good_dest, sources=list(fsrc)) for _ in range(nb)]
    fa = [C20Filler(dest=fsrc[-1], sources=[good_dest]) for _ in range(na)]
    if nb or na:
        labels.append('filler')
    eqs = place(eq, fb, fa, case['placement'], case.get('stage', 1),
                good_dest)
    kernel = CubicSpline(dim=2)
    err = attempt(pas, eqs, kernel, None, codegen=bool(case.get('codegen')))
    where = '%s in %s, dest=%s sources=%s' % (cname, case['placement'],
                                               dest, srcs)
    if ftype == 'none':
        if err is not None:
            fails.append(Failure(
                'AccelerationEval', 'complete_rejected',
                'complete problem (%s) rejected: %r' % (where, err),
                dict(exc=type(err).__name__,
                     stage='codegen' if case.get('codegen') else 'setup',
                     exact_array='arrays:exact' in labels),
                expected='accepted', observed=repr(err)))
        return fails, labels, nontrivial, None
    if ftype == 'remove':
        what = "'%s' removed from array '%s' (%s, needed %sly)" % (
            rname, target, role_txt, klass['need'])
        must = [cname, rname]
    else:
        what = "%s misspelt as '%s'" % (ftype[4:], bad)
        must = [bad]
        klass = dict(fault=ftype)
    if err is None:
        fails.append(Failure(
            'AccelerationEval', 'accepted',
            '%s: %s, yet AccelerationEval and SPHCompiler were constructed '
            'without an error' % (where, what), klass,
            expected='RuntimeError naming %s' % must, observed='accepted'))
    elif not isinstance(err, RuntimeError):
        fails.append(Failure(
            'AccelerationEval', 'wrong_exception',
            '%s: %s -> %r' % (where, what, err),
            dict(klass, exc=type(err).__name__),
            expected='RuntimeError naming %s' % must, observed=repr(err)))
    else:
        msg = str(err)
        miss = [m for m in must if not word_in(m, msg)]
        if miss:
            fails.append(Failure(
                'AccelerationEval', 'message',
                '%s: %s; the error does not name %s: %r' % (
                    where, what, miss, msg), klass,
                expected='message naming %s' % must, observed=msg))
    return fails, labels, nontrivial, None


# ------------------------------------------------------------- stepper case
def check_stepper(case):
    from pysph.base.kernels import CubicSpline
    from pysph.sph import integrator as integ_mod
    from pysph.sph.integrator_step import EulerStep
    from checks.c20_eqs import C20Filler
    labels, fails = ['shipped:stepper'], []
    cls = load_class(case['cls'])
    cname = cls.__name__
    try:
        stepper = cls()
    except Exception as ex:
        return [], labels, False, 'cannot instantiate %s: %r' % (cname, ex)
    needs = stepper_needs(stepper)
    narr = case['narr']
    pos = case['pos'] % narr
    names = ['p%d' % i for i in range(narr)]
    fault = case['fault']
    ftype = fault['type']
    labels.append('fault:' + ftype)
    rname = None
    nontrivial = False
    if ftype == 'remove':
        rname = fault['name']
        if rname not in needs:
            return [], labels, False, 'name not needed by stepper'
        labels.append('stepper:remove')
        if narr > 1:
            labels.append('stepper:other_has_it')
            nontrivial = True
    euler_needs = stepper_needs(EulerStep())
    pas = []
    for i, a in enumerate(names):
        props = set(needs) | euler_needs | set([FILL])
        pas.append(make_array(a, props, (), False,
                              rname if i == pos else None))
    steppers = {}
    key = names[pos]
    if ftype == 'bad_stepper':
        key = mangle(key, fault['how'])
    steppers[key] = stepper
    others = case.get('others', 'none')
    for i, a in enumerate(names):
        if i != pos and others != 'none':
            steppers[a] = cls() if others == 'same' else EulerStep()
    icls = getattr(integ_mod, case.get('integrator', 'PECIntegrator'))
    integrator = icls(**steppers)
    eqs = [C20Filler(dest=names[0], sources=[names[0]])]
    err = attempt(pas, eqs, CubicSpline(dim=2), integrator)
    where = '%s on %s of %s (%s)' % (cname, names[pos], names,
                                     icls.__name__)
    if ftype == 'none':
        if err is not None:
            fails.append(Failure(
                'IntegratorCythonHelper', 'complete_rejected',
                'complete problem (%s) rejected: %r' % (where, err),
                dict(exc=type(err).__name__), expected='accepted',
                observed=repr(err)))
        return fails, labels, nontrivial, None
    if ftype == 'remove':
        what = "'%s' removed from array '%s'" % (rname, names[pos])
        must = [cname, rname]
        klass = dict(fault='remove')
    else:
        what = "stepper array misspelt as '%s'" % key
        must = [key]
        klass = dict(fault=ftype)
    if err is None:
        fails.append(Failure(
            'IntegratorCythonHelper', 'accepted',
            '%s: %s, yet SPHCompiler was constructed and the integrator '
            'code generated without an error' % (where, what), klass,
            expected='RuntimeError naming %s' % must, observed='accepted'))
    elif not isinstance(err, RuntimeError):
        fails.append(Failure(
            'IntegratorCythonHelper', 'wrong_exception',
            '%s: %s -> %r' % (where, what, err),
            dict(klass, exc=type(err).__name__),
            expected='RuntimeError naming %s' % must, observed=repr(err)))
    else:
        msg = str(err)
        miss = [m for m in must if not word_in(m, msg)]
        if miss:
            fails.append(Failure(
                'IntegratorCythonHelper', 'message',
                '%s: %s; the error does not name %s: %r' % (
                    where, what, miss, msg), klass,
                expected='message naming %s' % must, observed=msg))
    return fails, labels, nontrivial, None


def check(case):
    if case['kind'] == 'stepper':
        return check_stepper(case)
    return check_equation(case)


def execute(case):
    fails, labels, nt, skip = check(case)
    return Outcome(fails, sorted(set(labels)), nt and not skip,
                   skipped=bool(skip))


# -------------------------------------------------------------- enumeration
def variants(tier):
    if tier == 'quick':
        return [(1, -1), (1, 0), (2, -1), (2, 1), (3, -1), (3, 1), (3, 2)]
    return [(n, d) for n in (1, 2, 3) for d in range(-1, n)]


def enumerate_equation(cpath, tier, emit):
    """Emit every case for one equation class; -> skip reason or None."""
    cls = load_class(cpath)
    try:
        eq = instantiate(cls, 'd0', ['s0'])
    except Exception as ex:
        return 'cannot instantiate: %r' % (ex,)
    base = dict(kind='eq', cls=cpath)
    seen = set()
    for nsrc, dpos in variants(tier):
        dest, srcs = layout(nsrc, dpos)
        try:
            eq = instantiate(cls, dest, srcs)
        except Exception as ex:
            return 'cannot instantiate: %r' % (ex,)
        has_src = eq.sources is not None
        if not has_src:
            nsrc, dpos, srcs = 1, -1, []
        key = (nsrc, dpos)
        if key in seen:
            continue
        seen.add(key)
        ed, es, idd, ids, _ = equation_needs(eq)
        if not has_src:
            es, idd, ids = set(), set(), set()
        arrays = [dest] + [s for s in srcs if s != dest]
        for pl in PLACEMENTS:
            b = dict(base, nsrc=nsrc, dest_pos=dpos, placement=pl,
                     fill=[1, 1] if pl != 'flat' else [0, 0], stage=1,
                     bystander=True)
            emit(dict(b, fault=dict(type='none')))
            for how in (MANGLE if tier != 'quick' else MANGLE[:1]):
                emit(dict(b, fault=dict(type='bad_dest', how=how)))
                for j in range(len(srcs)):
                    emit(dict(b, fault=dict(type='bad_source', pos=j,
                                            how=how)))
            for ai, a in enumerate(arrays):
                n = set()
                if a == dest:
                    n |= ed | idd
                if a in srcs:
                    n |= es | ids
                for name in sorted(n):
                    f = dict(type='remove', array=ai, name=name)
                    emit(dict(b, fault=f))
                    if tier != 'quick' and pl == 'multistage':
                        emit(dict(b, fault=f, stage=0, fill=[0, 2]))
        nondef = sorted((ed | es | idd | ids) - set(DEFAULT_PROPS))
        plain = dict(base, nsrc=nsrc, dest_pos=dpos, placement='flat',
                     fill=[0, 0], stage=1, bystander=False)
        if nondef:
            emit(dict(plain, consts=nondef, fault=dict(type='none')))
            emit(dict(plain, consts=nondef[1:], placement='group',
                      fault=dict(type='remove', array=0 if nondef[0] in
                                 (ed | idd) else len(arrays) - 1,
                                 name=nondef[0])))
        emit(dict(plain, minimal=True, fault=dict(type='none')))
        if tier != 'quick' or len(seen) == 1:
            emit(dict(base, nsrc=nsrc, dest_pos=dpos, placement='group',
                      fill=[0, 0], stage=0, bystander=False, codegen=True,
                      fault=dict(type='none')))
    return None


def enumerate_stepper(cpath, tier, emit):
    cls = load_class(cpath)
    try:
        needs = stepper_needs(cls())
    except Exception as ex:
        return 'cannot instantiate: %r' % (ex,)
    base = dict(kind='stepper', cls=cpath, integrator='PECIntegrator')
    lay = [(1, 0, 'none'), (2, 1, 'euler'), (3, 1, 'same')]
    if tier != 'quick':
        lay += [(2, 0, 'none'), (2, 0, 'same'), (3, 2, 'euler'),
                (3, 0, 'none')]
    for narr, pos, others in lay:
        b = dict(base, narr=narr, pos=pos, others=others)
        emit(dict(b, fault=dict(type='none')))
        emit(dict(b, fault=dict(type='bad_stepper', how='append')))
        for name in sorted(needs):
            emit(dict(b, fault=dict(type='remove', name=name)))
    return None


def all_units():
    eqs, steps = discover()
    from checks import c20_eqs
    units = [('eq', k) for k in sorted(eqs)]
    units += [('eq', TOYMOD + '.' + c.__name__)
              for c in c20_eqs.TOY_CLASSES]
    units += [('stepper', k) for k in sorted(steps)]
    return units


def run_enumeration(spec, ctx, stats):
    units = all_units()
    mine = [u for i, u in enumerate(units) if i % spec['of'] == spec['part']]
    seen_sig = set()
    skipped = {}

    def emit(case):
        if ctx is not None:
            ctx.journal(case)
        fails, labels, nt, skip = check(case)
        out = Outcome(fails, sorted(set(labels)), nt and not skip,
                      skipped=bool(skip))
        stats.record(case, out)
        for f in fails:
            if f.sig() in seen_sig:
                stats.duplicates += 1
                continue
            seen_sig.add(f.sig())
            stats.failures.append(f.as_dict(case))

    for kind, cpath in mine:
        if kind == 'eq':
            why = enumerate_equation(cpath, spec['tier'], emit)
        else:
            why = enumerate_stepper(cpath, spec['tier'], emit)
        if why:
            skipped[cpath] = why
    stats.label('enum:done')
    stats.extra['classes_enumerated'] = len(mine) - len(skipped)
    stats.extra['skipped_classes'] = skipped
    if spec['part'] == 0:
        stats.extra['discovered'] = dict(
            equations=len(_DISC['eq']), steppers=len(_DISC['st']),
            import_errors=_DISC['errors'])


# ---------------------------------------------------------------- generator
POOL = ['x', 'y', 'z', 'h', 'u', 'v', 'w', 'rho', 'm', 'p', 'q0', 'q1',
        'q2', 'q3', 'c20k', 'tag', 'gid', 'pid']
EXTRA_ARGS = {
    'initialize': ['t', 'dt'],
    'initialize_pair': ['t', 'dt'],
    'loop': ['t', 'dt', 'SPH_KERNEL', 'NBRS', 'N_NBRS'],
    'loop_all': ['t', 'dt', 'SPH_KERNEL', 'NBRS', 'N_NBRS'],
    'post_loop': ['t', 'dt'],
}


@st.composite
def gen_hooks(draw):
    hooks = {}
    chosen = draw(st.lists(st.sampled_from(HOOKS), min_size=1, max_size=5,
                           unique=True))
    for h in chosen:
        args = []
        if h != 'initialize_pair' or draw(st.booleans()):
            args.append('d_idx')
        dn = draw(st.lists(st.sampled_from(POOL), max_size=4, unique=True))
        args += ['d_' + n for n in dn]
        if h in ('initialize_pair', 'loop', 'loop_all'):
            if h == 'loop' and draw(st.integers(0, 4)) > 0:
                args.append('s_idx')
            sn = draw(st.lists(st.sampled_from(POOL), max_size=4,
                               unique=True))
            args += ['s_' + n for n in sn]
        if h == 'loop':
            args += draw(st.lists(st.sampled_from(SYMBOLS), max_size=4,
                                  unique=True))
        args += draw(st.lists(st.sampled_from(EXTRA_ARGS[h]), max_size=2,
                              unique=True))
        hooks[h] = draw(st.permutations(args))
    return hooks


def needs_from_hooks(hooks):
    ed, es, idd, ids = set(), set(), set(), set()
    for h, args in hooks.items():
        for a in args:
            if a.startswith('d_') and a != 'd_idx':
                ed.add(a[2:])
            elif a.startswith('s_') and a != 's_idx':
                es.add(a[2:])
            elif h == 'loop' and a in IMPLICIT:
                idd.update(IMPLICIT[a][0])
                ids.update(IMPLICIT[a][1])
    return ed, es, idd, ids


@st.composite
def gen_case(draw, toy_needs):
    if draw(st.integers(0, 3)) == 0:
        cpath = draw(st.sampled_from(sorted(toy_needs)))
        hooks = None
        ed, es, idd, ids, has_src = toy_needs[cpath]
    else:
        cpath = 'gen'
        hooks = draw(gen_hooks())
        ed, es, idd, ids = needs_from_hooks(hooks)
        has_src = True
    nsrc = draw(st.integers(1, 3))
    dpos = draw(st.integers(-1, nsrc - 1))
    dest, srcs = layout(nsrc, dpos)
    if not has_src:
        nsrc, dpos, srcs = 1, -1, []
        es, idd, ids = set(), set(), set()
    arrays = [dest] + [s for s in srcs if s != dest]
    case = dict(kind='eq', cls=cpath, nsrc=nsrc, dest_pos=dpos,
                placement=draw(st.sampled_from(PLACEMENTS)),
                fill=[draw(st.integers(0, 2)), draw(st.integers(0, 2))],
                stage=draw(st.integers(0, 1)),
                bystander=draw(st.booleans()),
                minimal=draw(st.integers(0, 2)) == 0)
    if hooks is not None:
        case['hooks'] = hooks
    allneeded = sorted((ed | es | idd | ids) - set(DEFAULT_PROPS))
    if allneeded and draw(st.booleans()):
        case['consts'] = draw(st.lists(st.sampled_from(allneeded),
                                       unique=True, max_size=3))
    ft = draw(st.sampled_from(['remove'] * 7 + ['none', 'none', 'bad_dest',
                                                 'bad_source']))
    if ft == 'bad_source' and not srcs:
        ft = 'bad_dest'
    if ft == 'remove':
        ai = draw(st.integers(0, len(arrays) - 1))
        a = arrays[ai]
        n = set()
        if a == dest:
            n |= ed | idd
        if a in srcs:
            n |= es | ids
        if not n:
            ft = 'none'
        else:
            case['fault'] = dict(type='remove', array=ai,
                                 name=draw(st.sampled_from(sorted(n))))
    if ft == 'none':
        case['fault'] = dict(type='none')
    elif ft == 'bad_dest':
        case['fault'] = dict(type='bad_dest',
                             how=draw(st.sampled_from(MANGLE)))
    elif ft == 'bad_source':
        case['fault'] = dict(type='bad_source',
                             pos=draw(st.integers(0, len(srcs) - 1)),
                             how=draw(st.sampled_from(MANGLE)))
    return case


def toy_table():
    from checks import c20_eqs
    out = {}
    for c in c20_eqs.TOY_CLASSES:
        eq = instantiate(c, 'd0', ['s0'])
        ed, es, idd, ids, _ = equation_needs(eq)
        out[TOYMOD + '.' + c.__name__] = (ed, es, idd, ids,
                                          eq.sources is not None)
    return out


# ------------------------------------------------------------------- driver
def plan(ctx):
    tier = ctx['tier']
    k = 16
    ngen = 500 if tier == 'quick' else 50000
    shards = [dict(name='enum-%02d' % i, kind='enum', part=i, of=k,
                   tier=tier) for i in range(k)]
    shards += [dict(name='gen-%02d' % i, kind='gen',
                    max_examples=-(-ngen // k)) for i in range(k)]
    return shards


def run_shard(spec, ctx):
    stats = Stats()
    if spec['kind'] == 'enum':
        run_enumeration(spec, ctx, stats)
        return stats.result()
    search(gen_case(toy_table()), execute,
           derive_seed(ctx.seed, 'C20', spec['name']),
           spec['max_examples'], stats, shrink=True, journal=ctx.journal)
    return stats.result()


def run_case(case, component, ctx):
    fails, _, _, skip = check(case)
    if skip:
        raise RuntimeError('replay case no longer applies: %s' % skip)
    return [f.as_dict(case) for f in fails]
