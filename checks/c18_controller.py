"""C18 - the solver controller never loses a command or a wake-up.

The harness owns the schedule.  controller.py of the tree under test is
re-loaded from source for every case with its `threading` / `_thread`
imports rewritten to the deterministic shim of vlib/sched.py: virtual threads
are real threads gated by a baton, every lock / condition operation, thread
start and thread end is a scheduling point, blocking is modelled.  A case is
(program, schedule): one solver thread that starts 1-2 interface threads
through CommandManager.add_interface and then executes control points
(CommandManager.execute_commands with a recording stand-in solver) until
every interface thread has finished, and interface threads that run a drawn
sequence of Controller calls restricted to well-formed uses of the documented
protocol.  The oracle is a set of invariants over the recorded history; a
state with no runnable thread is a deadlock / lost wake-up and is reported
with the blocked call sites as its signature.
"""
import os

from hypothesis import strategies as st

from vlib import sched as S
from vlib.hyp import (Failure, Outcome, Stats, search, derive_seed,
                      case_hash)

RULE = ('case = (program, schedule, tail). program: solver thread doing >= '
        'min_cp (1-6) control points and going on until all interface '
        'threads are done (+1 draining control point); 1-2 interface threads '
        'with 1-6 drawn ops each out of get / set (immediate) / qset, '
        'qnames, qgnpa (non-blocking, queued) / result (get_result of an id '
        'that thread obtained, once) / status / pause (pause_on_next) / wait '
        '/ cont; wait and cont only inside the thread\'s own pause block, at '
        'most one wait per block, every block closed by exactly one cont. '
        'schedule: list of ints, one consumed (mod #runnable) at each '
        'scheduling point with > 1 runnable thread, then tail policy '
        'round-robin or stay-until-blocked. DFS shards enumerate every '
        'schedule with <= K preemptions (quick K=3 / K=1 on the fixed one- / '
        'two-interface programs CANON, thorough K=4 / K=2-3 there and '
        'K=3 on drawn programs of <= 8 ops). Non-trivial = another '
        'thread ran between a pause_on_next returning and the matching '
        'wait() registering on the condition (or returning without having '
        'to), or one interface thread blocked on a lock held by the other; '
        'distinct by case hash.')
ASSUMPTIONS = [
    'interleavings at synchronisation-primitive granularity only (each lock '
    '/ condition operation is atomic); Condition.notify wakes waiters in '
    'FIFO order as CPython does',
    'serial run (DummyComm); wait/cont are documented as unsupported in '
    'parallel',
    'well-formed protocol use only: pause_on_next, optional single wait, '
    'exactly one cont, all by the same thread; get_result once per id by the '
    'thread that queued it; queued commands and get_result are allowed '
    'inside a pause block (wait_for_cmd exists to serve them)',
    'the solver keeps executing control points while an interface thread can '
    'still act; it stops after two consecutive control points during which '
    'every unfinished interface thread stayed blocked (then reported as a '
    'deadlock of those threads)',
    'runs longer than 4000 scheduling points are inconclusive (none seen)',
]
ESSENTIAL_LABELS = {'all': ['nt:switch_pause_wait', 'nt:iface_contention',
                            'threads:2', 'two_paused', 'op:result',
                            'pause_without_wait', 'op:wait',
                            'cmd_run_while_paused', 'result_in_pause_block',
                            'tail:rr', 'tail:stay', 'dfs:complete']}
EXHAUSTIVE = {'quick': False, 'thorough': False}
SHARD_TIMEOUT = {'quick': 600, 'thorough': 4 * 3600}

COMPONENT = 'CommandManager'
PROPS = ('dt', 'tf', 'pfreq')
MAX_STEPS = 4000

# fixed small programs whose schedules are enumerated in both tiers
CANON = {
    'pause-wait-cont': dict(min_cp=1, ifaces=[
        [['pause'], ['wait'], ['cont']]]),
    'pause-cont': dict(min_cp=1, ifaces=[
        [['pause'], ['cont']]]),
    'queue-result': dict(min_cp=1, ifaces=[
        [['qset', 'dt', 101], ['result', 0]]]),
    'paused-queue-result': dict(min_cp=1, ifaces=[
        [['pause'], ['wait'], ['qgnpa', 'a', 'p1'], ['result', 0],
         ['cont']]]),
    'two-queues': dict(min_cp=1, ifaces=[
        [['qset', 'dt', 101], ['result', 0]],
        [['qnames'], ['result', 0]]]),
    'two-pauses': dict(min_cp=1, ifaces=[
        [['pause'], ['wait'], ['cont']],
        [['pause'], ['cont']]]),
    'two-waits': dict(min_cp=1, ifaces=[
        [['pause'], ['wait'], ['cont']],
        [['pause'], ['wait'], ['cont']]]),
    'pause-vs-queue': dict(min_cp=2, ifaces=[
        [['pause'], ['wait'], ['get', 'dt'], ['cont']],
        [['qset', 'dt', 201], ['result', 0]]]),
}


# --------------------------------------------------------------- stand-ins
class StandInPA(object):
    def __init__(self, name, log):
        self.__dict__['name'] = name
        self.__dict__['_log'] = log

    def __getattr__(self, a):
        if a.startswith('__'):
            raise AttributeError(a)
        self._log('pa_attr', pa=self.name, attr=a)
        return '%s.%s' % (self.name, a)


class StandInSolver(object):
    def __init__(self, log):
        d = self.__dict__
        d['_log'] = None
        d['_logger'] = log
        d.update(t=0.0, tf=1.0, dt=0.1, count=0, pfreq=10, fname='f',
                 detailed_output=False, output_directory='o',
                 command_interval=1)
        d['_pas'] = [StandInPA('a', log), StandInPA('b', log)]

    def arm(self):
        self.__dict__['_log'] = self._logger

    @property
    def particles(self):
        if self._log:
            self._log('particles_read')
        return self._pas

    def __setattr__(self, k, v):
        if self._log:
            self._log('attr_set', name=k, val=v)
        self.__dict__[k] = v


_path = [None]


def controller_path():
    if _path[0] is None:
        import pysph.solver.controller as m
        p = m.__file__
        if p.endswith('.pyc'):
            p = p[:-1]
        _path[0] = os.path.abspath(p)
    return _path[0]


# ------------------------------------------------------------- well-formed
def validate(case):
    if not (1 <= int(case['min_cp']) <= 6):
        raise ValueError('min_cp out of range')
    if not (1 <= len(case['ifaces']) <= 2):
        raise ValueError('1-2 interface threads')
    for ops in case['ifaces']:
        paused = waited = False
        nq = 0
        fetched = set()
        for op in ops:
            k = op[0]
            if k == 'pause':
                if paused:
                    raise ValueError('nested pause')
                paused, waited = True, False
            elif k == 'wait':
                if not paused or waited:
                    raise ValueError('wait outside pause block / twice')
                waited = True
            elif k == 'cont':
                if not paused:
                    raise ValueError('cont without pause')
                paused = False
            elif k in ('qset', 'qnames', 'qgnpa'):
                nq += 1
            elif k == 'result':
                if not (0 <= op[1] < nq) or op[1] in fetched:
                    raise ValueError('get_result of an id not held')
                fetched.add(op[1])
            elif k in ('get', 'set'):
                if op[1] not in PROPS:
                    raise ValueError('unknown property')
            elif k != 'status':
                raise ValueError('unknown op %r' % (k,))
        if paused:
            raise ValueError('pause block never continued')
    return True


def expected_result(op):
    if op[0] == 'qset':
        return None
    if op[0] == 'qnames':
        return ['a', 'b']
    if op[0] == 'qgnpa':
        return ['%s.%s' % (op[1], op[2])]
    raise ValueError(op)


# ------------------------------------------------------------------ runner
class Run(object):
    pass


def run_one(case):
    """Execute one (program, schedule); returns a Run with the history."""
    validate(case)
    sc = S.Scheduler(case.get('schedule', ()), case.get('tail', 'rr'),
                     max_steps=MAX_STEPS)
    mod = S.load_with_shim(controller_path(), 'pysph.solver.controller', sc)
    events = []

    def log(typ, **kw):
        if sc.aborted:
            return
        kw['type'] = typ
        kw['th'] = sc.me().name
        kw['i'] = len(events)
        kw['step'] = len(sc.order)
        events.append(kw)

    solver = StandInSolver(log)
    cm = mod.CommandManager(solver)
    for k, v in vars(cm).items():
        if isinstance(v, S.VCondition):
            v.set_name(k)
        elif isinstance(v, S.VLock):
            v.name = k
    solver.arm()
    ifaces = case['ifaces']
    ithreads = []
    ids = {}          # (thread name, q index) -> task id
    fetched = set()
    fatal = []

    def make_body(i, ops):
        name = 'I%d' % i

        def body(ctrl):
            me = sc.me()
            me.name, me.role = name, 'interface'
            myq = []
            for k, op in enumerate(ops):
                kind = op[0]
                log('call', k=k, op=op)
                try:
                    if kind == 'get':
                        r = ctrl.get(op[1])
                    elif kind == 'set':
                        ctrl.set_blocking(True)
                        r = ctrl.set(op[1], op[2])
                    elif kind == 'qset':
                        ctrl.set_blocking(False)
                        r = ctrl.set(op[1], op[2])
                    elif kind == 'qnames':
                        ctrl.set_blocking(False)
                        r = ctrl.get_particle_array_names()
                    elif kind == 'qgnpa':
                        ctrl.set_blocking(False)
                        r = ctrl.get_named_particle_array(op[1], [op[2]])
                    elif kind == 'result':
                        r = ctrl.get_result(myq[op[1]])
                        fetched.add((name, op[1]))
                    elif kind == 'status':
                        r = ctrl.get_status()
                    elif kind == 'pause':
                        r = ctrl.pause_on_next()
                    elif kind == 'wait':
                        r = ctrl.wait()
                    elif kind == 'cont':
                        r = ctrl.cont()
                    else:
                        raise ValueError(kind)
                except S.SchedAbort:
                    raise
                except Exception as ex:
                    fatal.append(dict(th=name, k=k, op=op,
                                      exc=type(ex).__name__, msg=str(ex)))
                    log('exc', k=k, op=op, exc=type(ex).__name__)
                    sc._abort('exception')
                    raise S.SchedAbort()
                if kind in ('qset', 'qnames', 'qgnpa'):
                    ids[(name, len(myq))] = r
                    myq.append(r)
                log('ret', k=k, op=op, val=r)
        return body

    def all_done():
        return all(t.state == S.FINISHED for t in ithreads)

    def all_stuck():
        return all(t.state in (S.FINISHED, S.BLOCKED) for t in ithreads)

    def solver_body():
        me = sc.me()
        for i, ops in enumerate(ifaces):
            try:
                t = cm.add_interface(make_body(i, ops), True)
            except S.SchedAbort:
                raise
            except Exception as ex:
                fatal.append(dict(th='S', k=i, op=['add_interface'],
                                  exc=type(ex).__name__, msg=str(ex)))
                sc._abort('exception')
                raise S.SchedAbort()
            t.name, t.role = 'I%d' % i, 'interface'
            ithreads.append(t)
        n = 0
        idle = 0
        last = sc.activity_except(me)
        while True:
            sc.yield_()
            log('step')
            solver.__dict__['count'] += 1
            done = all_done()
            log('cp_enter', n=n)
            try:
                cm.execute_commands(solver)
            except S.SchedAbort:
                raise
            except Exception as ex:
                fatal.append(dict(th='S', k=n, op=['execute_commands'],
                                  exc=type(ex).__name__, msg=str(ex)))
                sc._abort('exception')
                raise S.SchedAbort()
            log('cp_exit', n=n)
            n += 1
            if done and n >= case['min_cp']:
                break
            act = sc.activity_except(me)
            if act == last and all_stuck() and not all_done():
                idle += 1
            else:
                idle = 0
            last = act
            if idle >= 2:
                log('gave_up')
                return
        # drain: results nobody fetched must still be delivered
        for key in sorted(ids):
            if key not in fetched:
                log('drain_call', key=list(key))
                try:
                    r = cm.get_result(ids[key])
                except S.SchedAbort:
                    raise
                except Exception as ex:
                    fatal.append(dict(th='S', k=-1, op=['get_result'],
                                      exc=type(ex).__name__, msg=str(ex)))
                    sc._abort('exception')
                    raise S.SchedAbort()
                log('drain_ret', key=list(key), val=r)

    sleepers = []

    def monitor():
        # A thread asleep in wait() although its predicate (`paused`) holds
        # and nobody is inside the critical section that could still notify
        # it: its wake-up now depends on what *other* threads happen to do
        # next.  On the documented protocol this state cannot exist (the flag
        # is only raised under plock, followed by notify_all before the lock
        # is released; a waiter only goes to sleep when the flag is down).
        pl = getattr(cm, 'plock', None)
        if sleepers or not isinstance(pl, S.VCondition):
            return
        if pl.waiters and getattr(cm, 'paused', False) and \
                pl._lock.owner is None:
            sleepers.append(dict(step=len(sc.order),
                                 threads=sorted(t.name for t in pl.waiters)))
    sc.monitor = monitor
    root = sc.spawn(solver_body, 'S', 'solver')
    status = sc.run([root])
    if status == 'harness':
        raise S.HarnessError('scheduler did not terminate: %r' % (case,))
    r = Run()
    r.case, r.sc, r.events, r.status, r.fatal = case, sc, events, status, fatal
    r.cm = cm
    r.sleepers = sleepers
    r.paused_idents = set(cm.pause)
    r.thread_exc = [(t.name, t.exc, t.exc_tb) for t in sc.threads
                    if t.exc is not None]
    return r


# ------------------------------------------------------------------ oracle
def deadlock_core(run):
    """Blocked threads that wait only on each other (sink components of the
    wait-for graph); the rest are victims of those."""
    info = run.sc.blocked_info()
    by = dict((b['thread'], b) for b in info)
    ident = dict((t.ident, t.name) for t in run.sc.threads)
    paused = set(ident.get(i) for i in run.paused_idents)
    edges = {}
    for b in info:
        e = set()
        if b['op'] == 'acquire' and b['owner'] is not None and \
                b['owner'] != b['thread'] and \
                not b['obj'].startswith('Lock[dispatch]'):
            e.add(b['owner'])
        elif b['op'] == 'join' and b['owner'] is not None:
            e.add(b['owner'])
        elif b['role'] == 'interface':
            # task lock / plock.wait: only the solver releases / notifies
            e.add('S')
        elif b['role'] == 'solver' and b['op'] == 'wait':
            e.update(p for p in paused if p)
        else:
            e.update(x for x in by if x != b['thread'])
        edges[b['thread']] = set(x for x in e if x in by)
    reach = {}
    for a in by:
        seen, todo = set(), list(edges[a])
        while todo:
            x = todo.pop()
            if x not in seen:
                seen.add(x)
                todo.extend(edges[x])
        reach[a] = seen
    core = [a for a in by if all(a in reach[c] for c in reach[a])]
    if not core:
        core = list(by)
    return sorted(set('%s@%s:%s' % (by[a]['role'], by[a]['function'],
                                    by[a]['prim']) for a in core)), info


def analyse(run):
    case, ev, sc = run.case, run.events, run.sc
    fails, labels = [], []
    F = lambda kind, detail, **kl: fails.append(  # noqa
        Failure(COMPONENT, kind, detail, kl))
    complete = run.status == 'ok'
    labels.append('status:' + run.status)
    labels.append('tail:' + case.get('tail', 'rr'))
    labels.append('threads:%d' % len(case['ifaces']))
    for ops in case['ifaces']:
        for op in ops:
            labels.append('op:' + op[0])

    if run.status == 'deadlock':
        core, info = deadlock_core(run)
        F('deadlock', 'no runnable thread; blocked: %s' % ', '.join(
            '%s(%s)@%s:%d:%s' % (b['thread'], b['role'], b['function'],
                                 b['lineno'], b['prim']) for b in info),
          blocked=core)
    for sl in getattr(run, 'sleepers', []):
        F('lost_wakeup', 'at scheduling point %d thread(s) %s are asleep in '
          'wait() although the solver has published paused=True and nobody '
          'holds the pause lock: the notification did not reach them' % (
              sl['step'], ', '.join(sl['threads'])), what='sleeper')
    for x in run.fatal:
        F('exception', '%s in %s op %s: %s: %s' % (
            x['th'], 'solver' if x['th'] == 'S' else 'interface',
            x['op'], x['exc'], x['msg']), op=x['op'][0], exc=x['exc'])
    for name, exc, tb in run.thread_exc:
        # every call into the code under test is wrapped; this is ours
        raise S.HarnessError('harness thread %s died: %r\n%s' % (
            name, exc, tb))

    # ---- sequential pass over the history
    cur = dict(t=0.0, tf=1.0, dt=0.1, pfreq=10)
    depth = 0
    cp_of = {}                  # event index -> inside control point?
    execs = []                  # indices of command executions by S
    sets_by_val = {}
    tok_events = {}
    invoked, returned = [], []  # event indices of queue-op calls / returns
    hist = {}                   # prop -> list of (idx, val)
    calls = {}                  # (th, k) -> call event
    rets = {}
    s_marks = []                # (idx, type) of S step / cp_enter / cp_exit
    pr_outside = 0
    for e in ev:
        t = e['type']
        if t == 'cp_enter':
            depth = 1
            s_marks.append((e['i'], t))
        elif t == 'cp_exit':
            depth = 0
            s_marks.append((e['i'], t))
        elif t == 'step':
            s_marks.append((e['i'], t))
        elif t == 'attr_set':
            hist.setdefault(e['name'], []).append((e['i'], e['val']))
            sets_by_val.setdefault((e['name'], e['val']), []).append(e)
            if e['th'] == 'S':
                execs.append(e['i'])
        elif t == 'particles_read':
            if e['th'] == 'S':
                execs.append(e['i'])
            if e['th'] != 'S' or depth != 1:
                pr_outside += 1
        elif t == 'pa_attr':
            tok_events.setdefault((e['pa'], e['attr']), []).append(e)
        elif t == 'call':
            calls[(e['th'], e['k'])] = e
            if e['op'][0] in ('qset', 'qnames', 'qgnpa'):
                invoked.append(e['i'])
        elif t == 'ret':
            rets[(e['th'], e['k'])] = e
            if e['op'][0] in ('qset', 'qnames', 'qgnpa'):
                returned.append(e['i'])
        cp_of[e['i']] = depth == 1

    def count_before(lst, i):
        return sum(1 for x in lst if x < i)

    def in_cp_at(i):
        """is the solver inside a control point just before event i?"""
        last = None
        for (j, t) in s_marks:
            if j < i and t in ('cp_enter', 'cp_exit'):
                last = t
        return last == 'cp_enter'

    if pr_outside:
        F('command_outside_control_point', 'a queued array command ran '
          'outside execute_commands or in an interface thread', cmd='lazy')

    n_lazy = 0
    cmd_while_paused = False
    pause_windows = []          # (th, wait_ret idx or None, cont_call idx)
    for i, ops in enumerate(case['ifaces']):
        th = 'I%d' % i
        q = []                  # ops queued by this thread, in order
        blk = None
        for k, op in enumerate(ops):
            c, r = calls.get((th, k)), rets.get((th, k))
            kind = op[0]
            if c is None:
                break
            if kind in ('qset', 'qnames', 'qgnpa'):
                q.append((k, op))
                if kind != 'qset':
                    n_lazy += 1
                if r is not None:
                    v = r['val']
                    if not (isinstance(v, str) and v.lstrip('-').isdigit()):
                        F('task_id', 'non-blocking %s returned %r, not a '
                          'task id' % (kind, v))
            if kind == 'qset':
                xs = sets_by_val.get((op[1], op[2]), [])
                if len(xs) > 1:
                    F('duplicate_command', 'queued set %s=%r executed %d '
                      'times' % (op[1], op[2], len(xs)), cmd='qset')
                if not xs and complete:
                    F('lost_command', 'queued set %s=%r of %s never '
                      'executed although the solver ran a control point '
                      'after all interfaces finished' % (op[1], op[2], th),
                      cmd='qset')
                for x in xs:
                    if x['th'] != 'S' or not cp_of[x['i']] or \
                            x['i'] < c['i']:
                        F('command_outside_control_point', 'queued set '
                          '%s=%r ran in thread %s, inside control point: %s'
                          % (op[1], op[2], x['th'], cp_of[x['i']]),
                          cmd='qset')
            elif kind == 'qgnpa':
                xs = tok_events.get((op[1], op[2]), [])
                if len(xs) > 2:
                    F('duplicate_command', 'queued array query %s executed '
                      'more than once (%d attribute reads)' % (op, len(xs)),
                      cmd='qgnpa')
                if not xs and complete:
                    F('lost_command', 'queued %s of %s never executed'
                      % (op, th), cmd='qgnpa')
                for x in xs:
                    if x['th'] != 'S' or not cp_of[x['i']] or \
                            x['i'] < c['i']:
                        F('command_outside_control_point', 'queued %s ran '
                          'in thread %s' % (op, x['th']), cmd='qgnpa')
            elif kind == 'result' and r is not None:
                qk, qop = q[op[1]]
                exp = expected_result(qop)
                if r['val'] != exp:
                    F('wrong_result', 'get_result for %s of %s returned %r, '
                      'expected %r' % (qop, th, r['val'], exp), cmd=qop[0])
                if blk is not None:
                    labels.append('result_in_pause_block')
            elif kind == 'get' and r is not None:
                cand = set()
                v0 = cur_at(hist, op[1], c['i'], cur)
                cand.add(v0)
                for (j, v) in hist.get(op[1], []):
                    if c['i'] < j < r['i']:
                        cand.add(v)
                if r['val'] not in cand:
                    F('get_value', 'get(%s) returned %r; the property held '
                      '%r during the call' % (op[1], r['val'], sorted(
                          cand, key=repr)))
            elif kind == 'set' and r is not None:
                xs = sets_by_val.get((op[1], op[2]), [])
                ok = len(xs) == 1 and xs[0]['th'] == th and \
                    c['i'] < xs[0]['i'] < r['i']
                if not ok:
                    F('set_effect', 'blocking set(%s,%r) by %s: %d '
                      'assignments %r' % (op[1], op[2], th, len(xs),
                                          [(x['th'], x['i']) for x in xs]))
            elif kind == 'status' and r is not None:
                v = r['val']
                ok = isinstance(v, str) and v.startswith('commands queued: ')
                if ok:
                    try:
                        nq = int(v.split(':')[1])
                    except ValueError:
                        ok = False
                if ok:
                    # one command may have left the queue without having
                    # been logged as executed yet
                    lo = max(0, count_before(returned, c['i']) -
                             count_before(execs, r['i']) - 1)
                    hi = count_before(invoked, r['i']) - \
                        count_before(execs, c['i'])
                    ok = lo <= nq <= hi
                if not ok:
                    F('status', 'get_status returned %r' % (v,))
            elif kind == 'pause':
                blk = dict(pause_ret=r['i'] if r else None, wait_call=None,
                           wait_ret=None, pause_step=r['step'] if r else None)
                if r is not None and r['val'] is not True:
                    F('pause_return', 'pause_on_next returned %r' % (
                        r['val'],))
            elif kind == 'wait':
                labels.append('wait_called')
                if blk['pause_step'] is not None:
                    # up to the moment this thread's wait() registers on
                    # the condition (or returns without having to)
                    end = r['step'] if r is not None else len(sc.order)
                    for (stp, who, obj, o) in sc.ops:
                        if who == th and o == 'wait' and stp > c['step']:
                            end = min(end, stp)
                            break
                    between = sc.order[blk['pause_step']:end]
                    if any(x != th for x in between):
                        labels.append('nt:switch_pause_wait')
                if r is not None:
                    blk['wait_ret'] = r['i']
                    if r['val'] is not True:
                        F('wait_return', 'wait returned %r' % (r['val'],))
                    if not in_cp_at(r['i']):
                        F('pause_violated', '%s: wait() returned while the '
                          'solver was not inside a control point' % th,
                          how='wait_returned_outside_control_point')
            elif kind == 'cont':
                lo = blk['wait_ret']
                if lo is not None:
                    bad = [(j, t) for (j, t) in s_marks if lo < j < c['i']]
                    if bad:
                        F('pause_violated', '%s: between wait() returning '
                          '(event %d) and cont() (event %d) the solver did '
                          '%s' % (th, lo, c['i'], bad[:4]),
                          how='solver_progress_before_cont')
                    if any(lo < x < c['i'] for x in execs):
                        cmd_while_paused = True
                pr = blk['pause_ret']
                if pr is not None:
                    enters = [j for (j, t) in s_marks
                              if t == 'cp_enter' and pr < j < c['i']]
                    for j in enters:
                        ex = [jj for (jj, t) in s_marks
                              if t == 'cp_exit' and jj > j]
                        if ex and ex[0] < c['i']:
                            F('pause_ignored', '%s: a control point entered '
                              'after pause_on_next returned (event %d) was '
                              'left (event %d) before cont() (event %d)' % (
                                  th, j, ex[0], c['i']))
                            break
                pause_windows.append((th, pr, c['i']))
                if blk['wait_ret'] is None and not any(
                        o[0] == 'wait' for o in _block_ops(ops, k)):
                    labels.append('pause_without_wait')
                blk = None
    if cmd_while_paused:
        labels.append('cmd_run_while_paused')
    # lazy commands: one read of solver.particles each
    n_pr = sum(1 for e in ev if e['type'] == 'particles_read'
               and e['th'] == 'S')
    if n_pr > n_lazy:
        F('duplicate_command', '%d queued array commands but solver.'
          'particles was read %d times' % (n_lazy, n_pr), cmd='lazy')
    if complete and n_pr < n_lazy:
        F('lost_command', '%d queued array commands but solver.particles '
          'was read %d times' % (n_lazy, n_pr), cmd='lazy')
    # drained results
    for e in ev:
        if e['type'] == 'drain_ret':
            th, qi = e['key']
            qops = [op for op in case['ifaces'][int(th[1:])]
                    if op[0] in ('qset', 'qnames', 'qgnpa')]
            exp = expected_result(qops[qi])
            if e['val'] != exp:
                F('wrong_result', 'result of %s of %s (fetched after the '
                  'run) is %r, expected %r' % (qops[qi], th, e['val'], exp),
                  cmd=qops[qi][0])
    # two interfaces paused at the same time
    for a in pause_windows:
        for b in pause_windows:
            if a[0] < b[0] and a[1] is not None and b[1] is not None \
                    and a[1] < b[2] and b[1] < a[2]:
                labels.append('two_paused')
    for (w, o, l) in sc.contention:
        if w.startswith('I') and o.startswith('I') and w != o:
            labels.append('nt:iface_contention')
    labels = sorted(set(labels))
    nontrivial = 'nt:switch_pause_wait' in labels or \
        'nt:iface_contention' in labels
    return fails, labels, nontrivial


def _block_ops(ops, k):
    """ops of the pause block that ends with the cont at position k"""
    j = k
    while j >= 0 and ops[j][0] != 'pause':
        j -= 1
    return ops[j:k]


def cur_at(hist, prop, i, init):
    v = init[prop]
    for (j, x) in hist.get(prop, []):
        if j < i:
            v = x
    return v


def check(case):
    run = run_one(case)
    fails, labels, nt = analyse(run)
    inconclusive = run.status == 'livelock'
    return fails, labels, nt, inconclusive, run


# ------------------------------------------------------------ generation
@st.composite
def program_strategy(draw, max_total=12, max_per=6):
    nthr = draw(st.sampled_from([1, 2, 2]))
    ifaces = []
    total = 0
    for i in range(nthr):
        room = max_total - total - (nthr - 1 - i)
        n = draw(st.integers(1, max(1, min(max_per, room))))
        ops = []
        paused = waited = False
        nq = 0
        fetched = []
        while len(ops) < n:
            ch = ['get', 'set', 'status', 'qset', 'qnames', 'qgnpa']
            if nq - len(fetched) > 0:
                ch += ['result'] * 3
            if not paused:
                if len(ops) + 2 <= n:
                    ch += ['pause'] * 4
            else:
                ch += ['cont'] * 2
                if not waited and len(ops) + 2 <= n:
                    ch += ['wait'] * 4
                if len(ops) + 1 >= n:
                    ch = ['cont']
            kind = draw(st.sampled_from(ch))
            val = 100 * (i + 1) + len(ops)
            if kind == 'get':
                ops.append(['get', draw(st.sampled_from(PROPS))])
            elif kind in ('set', 'qset'):
                ops.append([kind, draw(st.sampled_from(PROPS)), val])
            elif kind == 'qnames':
                ops.append(['qnames'])
            elif kind == 'qgnpa':
                ops.append(['qgnpa', draw(st.sampled_from(['a', 'b'])),
                            'p%d' % val])
            elif kind == 'result':
                free = [j for j in range(nq) if j not in fetched]
                j = draw(st.sampled_from(free))
                fetched.append(j)
                ops.append(['result', j])
            elif kind == 'pause':
                paused, waited = True, False
                ops.append(['pause'])
            elif kind == 'wait':
                waited = True
                ops.append(['wait'])
            elif kind == 'cont':
                paused = False
                ops.append(['cont'])
            else:
                ops.append(['status'])
            if kind in ('qset', 'qnames', 'qgnpa'):
                nq += 1
        if paused:
            ops.append(['cont'])
        total += len(ops)
        ifaces.append(ops)
    return dict(min_cp=draw(st.integers(1, 6)), ifaces=ifaces)


@st.composite
def case_strategy(draw):
    prog = draw(program_strategy())
    prog['schedule'] = draw(st.lists(st.integers(0, 5), max_size=80))
    prog['tail'] = draw(st.sampled_from(['rr', 'stay']))
    return prog


# ----------------------------------------------------------- known / exec
def _known_id(f, known):
    from vlib.driver import matches
    flat = f.flat()
    for e in known:
        if matches(e, flat):
            return e.get('id', 'known')
    return None


def make_execute(known, stats):
    def execute(case):
        fails, labels, nt, inc, run = check(case)
        keep = []
        for f in fails:
            kid = _known_id(f, known) if known else None
            if kid is not None:
                labels.append('known:' + kid)
                hits = stats.extra.setdefault('known_open_hits', {})
                hits[kid] = hits.get(kid, 0) + 1
            else:
                keep.append(f)
        return Outcome(keep, sorted(set(labels)), nt, inconclusive=inc)
    return execute


# --------------------------------------------------------------------- DFS
def choice_cost(tr, c):
    n, chosen, dflt, kind, me_idx = tr
    if kind == 'pre':
        return 0 if c == dflt else 1
    if kind == 'yield':
        return 1 if c == me_idx else 0
    return 0


def dfs(prog, bound, cap, on_run):
    """Enumerate every schedule of `prog` with <= bound preemptions: explicit
    prefixes, 'stay' policy beyond the prefix, each alternative at every
    choice point past the prefix spawns a new prefix.  Schedules with fewer
    preemptions are run first (so that a truncated enumeration has covered
    the low-preemption ones), depth first among equals.
    on_run(case, result of check) is called for every execution; a true
    return value stops the enumeration.  Returns (runs, complete)."""
    import heapq
    heap = [(0, 0, (), 0, None)]
    seq = 0
    runs = 0
    while heap:
        if runs >= cap:
            return runs, False
        cost, _, parent, i, alt = heapq.heappop(heap)
        prefix = list(parent[:i]) + ([alt] if alt is not None else [])
        case = dict(min_cp=prog['min_cp'], ifaces=prog['ifaces'],
                    schedule=prefix, tail='stay')
        res = check(case)
        runs += 1
        run = res[4]
        trace = run.sc.trace
        choices = tuple(t[1] for t in trace)
        full = dict(case, schedule=list(choices))
        if on_run(full, res):
            return runs, False
        used = 0
        for j, tr in enumerate(trace):
            if j >= len(prefix):
                for a in range(tr[0]):
                    c = used + choice_cost(tr, a)
                    if a != tr[1] and c <= bound:
                        seq -= 1
                        heapq.heappush(heap, (c, seq, choices, j, a))
            used += choice_cost(tr, tr[1])
    return runs, True


def run_dfs_program(prog, bound, cap, known, stats, stop=None):
    """DFS over one program, recording every execution in stats; returns the
    list of (Failure, concrete case) that are not known findings.  `stop`
    (a set of masked signatures) ends the enumeration at the first failure
    whose signature is not in it."""
    new = []

    def on_run(full, res):
        fails, labels, nt, inc, run = res
        labels = list(labels)
        keep = []
        for f in fails:
            kid = _known_id(f, known) if known else None
            if kid is not None:
                labels.append('known:' + kid)
                hits = stats.extra.setdefault('known_open_hits', {})
                hits[kid] = hits.get(kid, 0) + 1
            else:
                keep.append(f)
        stats.record(full, Outcome(keep, sorted(set(labels)), nt,
                                   inconclusive=inc))
        for f in keep:
            new.append((f, full))
        return stop is not None and any(f.sig() not in stop for f in keep)
    runs, complete = dfs(prog, bound, cap, on_run)
    if complete:
        stats.label('dfs:complete')
    elif runs >= cap:
        stats.label('dfs:truncated')
    else:
        stats.label('dfs:stopped_at_failure')
    stats.label('dfs:programs')
    return new, runs, complete


# ------------------------------------------------------------------ driver
# canonical programs: preemption bound per tier (two-interface programs have
# far more schedules; one run is ~2 ms)
CANON_BOUND = {
    'pause-wait-cont': (3, 4), 'pause-cont': (3, 4), 'queue-result': (3, 4),
    'paused-queue-result': (3, 4), 'two-queues': (1, 2),
    'two-pauses': (1, 3), 'two-waits': (1, 2), 'pause-vs-queue': (1, 3),
}


def plan(ctx):
    known = [dict(id=e.get('id'), match=e.get('match', {}))
             for e in ctx.get('known_open', [])]
    quick = ctx['tier'] == 'quick'
    specs = []
    n = 6400 if quick else 1000000
    k = 16
    for i in range(k):
        specs.append(dict(name='rand-%02d' % i, mode='rand',
                          max_examples=n // k, known=known))
    for nm in sorted(CANON):
        specs.append(dict(name='dfs-canon-' + nm, mode='dfs-canon',
                          program=nm, bound=CANON_BOUND[nm][0 if quick else 1],
                          cap=4000 if quick else 400000, known=known))
    if not quick:
        for i in range(16):
            specs.append(dict(name='dfs-rand-%02d' % i, mode='dfs-rand',
                              max_examples=12, bound=3, cap=30000,
                              known=known))
    for i, s in enumerate(specs):
        s['cpu'] = i
    return specs


def _pin(spec):
    """Thread hand-over is ~6x faster when all threads of a worker share
    one CPU (no cross-CPU wake-ups)."""
    try:
        cpus = sorted(os.sched_getaffinity(0))
        os.sched_setaffinity(0, {cpus[int(spec.get('cpu', 0)) % len(cpus)]})
    except (AttributeError, OSError, ValueError):
        pass


def run_shard(spec, ctx):
    _pin(spec)
    stats = Stats()
    known = spec.get('known') or []
    seed = derive_seed(ctx.seed, 'C18', spec['name'])
    if spec['mode'] == 'rand':
        search(case_strategy(), make_execute(known, stats), seed,
               spec['max_examples'], stats, shrink=True)
    elif spec['mode'] == 'dfs-canon':
        prog = CANON[spec['program']]
        new, runs, complete = run_dfs_program(prog, spec['bound'],
                                              spec['cap'], known, stats)
        for f, full in new:
            if f.sig() not in stats.masked:
                stats.masked.add(f.sig())
                stats.failures.append(f.as_dict(full))
            else:
                stats.duplicates += 1
        stats.extra['dfs_runs'] = runs
    else:
        concrete = {}
        side = dict(nontrivial=set(), samples=[])

        def execute(prog):
            sub = Stats()
            new, runs, complete = run_dfs_program(
                prog, spec['bound'], spec['cap'], known, sub,
                stop=stats.masked)
            stats.extra['dfs_runs'] = stats.extra.get('dfs_runs', 0) + runs
            for l, v in sub.labels.items():
                if l.startswith('dfs:') or l.startswith('known:'):
                    stats.label(l, v)
            fails, seen = [], set()
            for f, full in new:
                if f.sig() not in seen:
                    seen.add(f.sig())
                    fails.append(f)
                    concrete[(case_hash(prog), f.sig())] = full
            labs = [l for l in sub.labels if not l.startswith('dfs:')]
            side['nontrivial'].update(sub.nontrivial)
            if len(side['samples']) < 2:
                side['samples'].extend(sub.samples[:1])
            return Outcome(fails, labs, False)
        search(program_strategy(max_total=8, max_per=5), execute, seed,
               spec['max_examples'], stats, shrink=True)
        # what was executed are the (program, schedule) runs
        stats.extra['dfs_programs'] = stats.evaluations
        stats.evaluations = stats.extra.get('dfs_runs', 0)
        stats.nontrivial = side['nontrivial']
        stats.samples = side['samples']
        for d in stats.failures:
            f = Failure(d['component'], d['kind'], '', d.get('klass'))
            full = concrete.get((case_hash(d['case']), f.sig()))
            if full is not None:
                d['case'] = full
    return stats.result()


def run_case(case, component, ctx):
    _pin({})
    if 'schedule' not in case:
        # a bare program: enumerate its schedules
        out = []
        stats = Stats()
        new, _, _ = run_dfs_program(case, 3, 30000, [], stats)
        seen = set()
        for f, full in new:
            if f.sig() not in seen:
                seen.add(f.sig())
                out.append(f.as_dict(full))
        return out
    fails, _, _, _, _ = check(case)
    return [f.as_dict(case) for f in fails]
