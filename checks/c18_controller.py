"""C18 - the solver controller never loses a command or a wake-up.

The harness owns the schedule.  controller.py of the tree under test is
re-loaded from source for every case with its `threading` / `_thread`
imports rewritten to the deterministic shim of vlib/sched.py: virtual threads
are real threads gated by a baton, every lock / condition operation, thread
start and thread end is a scheduling point, blocking is modelled.  A case is
(program, schedule): one solver thread that starts 1-2 interface threads
through CommandManager.add_interface and then executes control points
(CommandManager.execute_commands with a recording stand-in solver) until
every interface thread has finished, and interface threads that run a drawn
sequence of Controller calls restricted to well-formed uses of the documented
protocol.  The oracle is a set of invariants over the recorded history; a
state with no runnable thread is a deadlock / lost wake-up and is reported
with the blocked call sites as its signature.
"""
import os

from hypothesis import strategies as st

from vlib import sched as S
from vlib.hyp import (Failure, Outcome, Stats, search, derive_seed,
                      case_hash)

RULE = ('case = (program, schedule, tail). program: solver thread that adds '
        '1-3 interface threads through add_interface (blocking or '
        'non-blocking, before the first or after the k-th control point), '
        'steps its counter and executes a control point whenever count % '
        'command_interval == 0 (interval 1-3, may be changed by an '
        'interface) until >= min_cp (1-6) control points are done and all '
        'interface threads have finished (+1 draining control point). '
        'Interface threads run 1-6 drawn ops each. Core ops: get / set '
        '(immediate) / qset, qnames, qgnpa (non-blocking, queued) / result '
        '(get_result of an id that thread obtained, once) / status / pause '
        '(pause_on_next) / wait / cont. Rich programs (odd rand shards) add '
        'the rest of the Controller API: get_<prop> / set_<prop> wrappers '
        '(getn, setn, qsetn), blocking array commands (bnames, bgnpa), '
        'queued get_particle_array_from_procs / _combined (qprocs, qcomb), '
        'get_named_particle_array without props and with an unknown name, '
        'get_task_lock polling (tasklock), ping, get_prop_names, '
        'get_blocking, set of command_interval (setci), get / set of an '
        'unknown property (rejected by the dispatcher), a repeated wait '
        'inside a pause block. wait and cont only inside the thread\'s own '
        'pause block, every block closed by exactly one cont. '
        'schedule: list of ints, one consumed (mod #runnable) at each '
        'scheduling point with > 1 runnable thread, then tail policy '
        'round-robin or stay-until-blocked. DFS shards enumerate every '
        'schedule with <= K preemptions on the fixed programs CANON (K per '
        'program and tier in CANON_BOUND; in quick every enumeration must '
        'complete) and in thorough K=3 on drawn programs of <= 8 ops. '
        'Non-trivial = another '
        'thread ran between a pause_on_next returning and the matching '
        'wait() registering on the condition (or returning without having '
        'to), or one interface thread blocked on a lock held by the other; '
        'distinct by case hash.')
ASSUMPTIONS = [
    'interleavings at synchronisation-primitive granularity only (each lock '
    '/ condition operation is atomic); Condition.notify wakes waiters in '
    'FIFO order as CPython does',
    'serial run (DummyComm); wait/cont are documented as unsupported in '
    'parallel',
    'well-formed protocol use only: pause_on_next, wait (any number of '
    'times), exactly one cont, all by the same thread; get_result once per '
    'id by the thread that queued it; get_task_lock only for an id whose '
    'result was not fetched yet; queued commands and get_result are allowed '
    'inside a pause block (wait_for_cmd exists to serve them); no command '
    'is issued after the solver has stopped; an interface never exits '
    'inside a pause block',
    'the property quantifies over one or two interface threads; three are '
    'generated as well (the statement does not depend on the number)',
    'blocking mode executes the command inside the call, in the calling '
    'thread (what the code has always done); only queued commands are '
    'required to run at a control point',
    'commands whose Python meaning is an exception in the solver thread '
    '(array index out of range, ...) are not generated; two call forms '
    'that fail on the unchanged tree (Controller.dump_output, default '
    'procs of the *_from_procs / *_combined commands in a serial run) are '
    'replaced by construction and counted under excluded:*',
    'the solver keeps executing control points while an interface thread can '
    'still act; it stops after two consecutive control points during which '
    'every unfinished interface thread stayed blocked (then reported as a '
    'deadlock of those threads)',
    'the XML-RPC / multiprocessing wrappers of solver_interfaces.py need '
    'sockets and are not driven; task ids are checked to be decimal strings '
    '(what XML-RPC can marshal)',
    'runs longer than 4000 scheduling points are inconclusive (none seen)',
]
_ESS = ['nt:switch_pause_wait', 'nt:iface_contention',
        'threads:2', 'two_paused', 'op:result',
        'pause_without_wait', 'op:wait',
        'cmd_run_while_paused', 'result_in_pause_block',
        'tail:rr', 'tail:stay', 'dfs:complete',
        # classes added by the coverage audit
        'threads:3', 'block0:false', 'late_iface', 'interval>1',
        'step_without_cp_in_pause_block', 'wait_twice',
        'tasklock:available', 'tasklock:pending', 'op:badget', 'op:badset',
        'op:qbadset',
        'op:getn', 'op:setn', 'op:qsetn', 'op:bnames', 'op:bgnpa',
        'op:qprocs', 'op:qcomb', 'op:setci', 'op:getblk', 'xmlrpc_iface',
        'op:listmethods']
ESSENTIAL_LABELS = {'all': _ESS, 'thorough': _ESS}
EXHAUSTIVE = {'quick': False, 'thorough': False}
SHARD_TIMEOUT = {'quick': 600, 'thorough': 4 * 3600}

COMPONENT = 'CommandManager'
PROPS = ('dt', 'tf', 'pfreq')
MAX_STEPS = 4000

# fixed small programs whose schedules are enumerated in both tiers
CANON = {
    'pause-wait-cont': dict(min_cp=1, ifaces=[
        [['pause'], ['wait'], ['cont']]]),
    'pause-cont': dict(min_cp=1, ifaces=[
        [['pause'], ['cont']]]),
    'queue-result': dict(min_cp=1, ifaces=[
        [['qset', 'dt', 101], ['result', 0]]]),
    'paused-queue-result': dict(min_cp=1, ifaces=[
        [['pause'], ['wait'], ['qgnpa', 'a', 'p1'], ['result', 0],
         ['cont']]]),
    'two-queues': dict(min_cp=1, ifaces=[
        [['qset', 'dt', 101], ['result', 0]],
        [['qnames'], ['result', 0]]]),
    'two-pauses': dict(min_cp=1, ifaces=[
        [['pause'], ['wait'], ['cont']],
        [['pause'], ['cont']]]),
    'two-waits': dict(min_cp=1, ifaces=[
        [['pause'], ['wait'], ['cont']],
        [['pause'], ['wait'], ['cont']]]),
    'pause-vs-queue': dict(min_cp=2, ifaces=[
        [['pause'], ['wait'], ['get', 'dt'], ['cont']],
        [['qset', 'dt', 201], ['result', 0]]]),
    # a second pause block of the same thread (stale state of the first)
    'pause-twice': dict(min_cp=1, ifaces=[
        [['pause'], ['wait'], ['cont'], ['pause'], ['wait'], ['cont']]]),
    'wait-wait': dict(min_cp=1, ifaces=[
        [['pause'], ['wait'], ['wait'], ['cont']]]),
    # polling the task lock instead of blocking in get_result
    'tasklock-poll': dict(min_cp=1, ifaces=[
        [['qset', 'dt', 101], ['tasklock', 0], ['tasklock', 0],
         ['result', 0]]]),
    # control points skipped by command_interval while a pause is pending
    'interval-pause': dict(min_cp=1, interval=2, ifaces=[
        [['pause'], ['wait'], ['qcomb'], ['result', 0], ['cont']]]),
    # an interface that starts non-blocking and one added while running
    'nonblocking-late': dict(min_cp=1, block0=[False, True], late=[0, 1],
                             ifaces=[
        [['qsetn', 'dt', 101], ['result', 0]],
        [['pause'], ['wait'], ['cont']]]),
    'three-waits': dict(min_cp=1, ifaces=[
        [['pause'], ['wait'], ['cont']],
        [['pause'], ['wait'], ['cont']],
        [['pause'], ['wait'], ['cont']]]),
}


# --------------------------------------------------------------- stand-ins
class StandInPA(object):
    def __init__(self, name, log):
        self.__dict__['name'] = name
        self.__dict__['_log'] = log

    def __getattr__(self, a):
        if a.startswith('__'):
            raise AttributeError(a)
        self._log('pa_attr', pa=self.name, attr=a)
        return '%s.%s' % (self.name, a)


class StandInSolver(object):
    def __init__(self, log, interval=1):
        d = self.__dict__
        d['_log'] = None
        d['_logger'] = log
        d.update(t=0.0, tf=1.0, dt=0.1, count=0, pfreq=10, fname='f',
                 detailed_output=False, output_directory='o',
                 command_interval=interval)
        # two recording stand-ins and one real (empty-property) array: only
        # a real ParticleArray can be combined (get_particle_array_combined)
        from pysph.base.particle_array import ParticleArray
        d['_pas'] = [StandInPA('a', log), StandInPA('b', log),
                     ParticleArray(name='c', x=[0.0, 0.5, 1.0])]

    def arm(self):
        self.__dict__['_log'] = self._logger

    @property
    def particles(self):
        if self._log:
            self._log('particles_read')
        return self._pas

    def dump_output(self):
        if self._log:
            self._log('dump')

    def __setattr__(self, k, v):
        if self._log:
            self._log('attr_set', name=k, val=v)
        self.__dict__[k] = v


def canon_value(v):
    """JSON-able, comparable form of what a controller call returned."""
    if isinstance(v, (list, tuple)):
        return [canon_value(x) for x in v]
    if isinstance(v, StandInPA):
        return 'PA:' + v.name
    if isinstance(v, S.VLock):
        return 'LOCK'
    if type(v).__name__ == 'ParticleArray':
        return 'RPA:%s:%d' % (v.name, v.get_number_of_particles())
    return v


_path = [None]


def controller_path():
    if _path[0] is None:
        import pysph.solver.controller as m
        p = m.__file__
        if p.endswith('.pyc'):
            p = p[:-1]
        _path[0] = os.path.abspath(p)
    return _path[0]


# ------------------------------------------------------------- well-formed
# non-blocking calls that return a task id
QKINDS = ('qset', 'qsetn', 'qnames', 'qgnpa', 'qdump', 'qprocs', 'qcomb')
# of those, the ones that read solver.particles exactly once when they run
QLAZY = ('qnames', 'qgnpa', 'qprocs', 'qcomb')
# the same commands in blocking mode (executed inside the call)
BLAZY = ('bnames', 'bgnpa')
PLAIN = ('status', 'ping', 'propnames', 'getblk', 'qnames', 'qdump',
         'dump', 'bnames', 'badget', 'badset', 'qbadset', 'pause', 'wait',
         'cont')
# Two input classes failed on the tree as audited on 2026-09-26 and were
# repaired there (solver-method commands lacked the method name; the default
# procs of the array commands read comm.size in a serial run): replays
# replays/C18/solver_method_dispatch_*.json and default_procs_serial.json.
# Nothing is excluded any more.
EXCLUDED = ()
PA_NAMES = ('a', 'b', 'zz')       # 'zz' does not exist: the command yields None
# mode a call needs: True blocking, False non-blocking, None either
NEEDS_MODE = dict(set=True, setn=True, setci=True, dump=True, bnames=True,
                  bgnpa=True, badset=True, qbadset=False)
for _k in QKINDS:
    NEEDS_MODE[_k] = False
MAX_IFACES = 3
# results that XML-RPC cannot marshal (documented limit of XMLRPCInterface:
# particle arrays, locks) or calls that need keyword arguments
NOT_MARSHALLABLE = ('qprocs', 'qcomb', 'tasklock')
# what the Controller docstring lists as available
DOCUMENTED_METHODS = ('get', 'set', 'get_result', 'pause_on_next', 'wait',
                      'cont')


class RpcProxy(object):
    """Calls the methods of the instance registered with an XMLRPCInterface
    the way a client does, minus the socket: request marshalled, handed to
    the server's dispatcher, response unmarshalled (a Fault is raised)."""

    def __init__(self, server, sc):
        self._server = server
        self._sc = sc

    def __getattr__(self, name):
        if name.startswith('_'):
            raise AttributeError(name)
        import xmlrpc.client as xc

        def call(*args):
            req = xc.dumps(tuple(args), name, allow_none=True)
            resp = self._server._marshaled_dispatch(req.encode())
            if self._sc.aborted:
                # the dispatcher swallows BaseException
                raise S.SchedAbort()
            return xc.loads(resp)[0][0]
        return call


def validate(case):
    if not (1 <= int(case['min_cp']) <= 6):
        raise ValueError('min_cp out of range')
    n = len(case['ifaces'])
    if not (1 <= n <= MAX_IFACES):
        raise ValueError('1-%d interface threads' % MAX_IFACES)
    if not (1 <= int(case.get('interval', 1)) <= 3):
        raise ValueError('command_interval out of range')
    b0 = case.get('block0', [True] * n)
    if len(b0) != n or any(b not in (True, False) for b in b0):
        raise ValueError('block0: one bool per interface')
    late = case.get('late', [0] * n)
    if len(late) != n or any(not (0 <= int(x) <= 4) for x in late):
        raise ValueError('late: one int in 0..4 per interface')
    xml = case.get('xmlrpc', [False] * n)
    if len(xml) != n or any(b not in (True, False) for b in xml):
        raise ValueError('xmlrpc: one bool per interface')
    for ii, ops in enumerate(case['ifaces']):
        paused = False
        nq = 0
        fetched = set()
        for op in ops:
            k = op[0]
            if k == 'pause':
                if paused:
                    raise ValueError('nested pause')
                paused = True
            elif k == 'wait':
                if not paused:
                    raise ValueError('wait outside pause block')
            elif k == 'cont':
                if not paused:
                    raise ValueError('cont without pause')
                paused = False
            elif k in ('result', 'tasklock'):
                if not (0 <= op[1] < nq) or op[1] in fetched:
                    raise ValueError('result / task lock of an id not held')
                if k == 'result':
                    fetched.add(op[1])
            elif k in ('get', 'set', 'getn', 'setn', 'qset', 'qsetn'):
                if op[1] not in PROPS:
                    raise ValueError('unknown property')
            elif k == 'setci':
                if op[1] not in (1, 2, 3):
                    raise ValueError('command_interval out of range')
            elif k in ('qgnpa', 'bgnpa'):
                if op[1] not in PA_NAMES:
                    raise ValueError('array name')
            elif k == 'qprocs':
                if op[1] not in (0, 1) or op[2:] not in ([], ['default']):
                    raise ValueError('array index / procs')
            elif k == 'qcomb':
                if op[1:] not in ([], ['default']):
                    raise ValueError('procs')
            elif k == 'listmethods':
                if not xml[ii]:
                    raise ValueError('listmethods is an XML-RPC call')
            elif k not in PLAIN:
                raise ValueError('unknown op %r' % (k,))
            if xml[ii] and (k in NOT_MARSHALLABLE or (
                    k in ('qgnpa', 'bgnpa') and op[1] != 'zz'
                    and op[2] is None)):
                raise ValueError('%s cannot go over XML-RPC' % k)
            if k in QKINDS:
                nq += 1
        if paused:
            raise ValueError('pause block never continued')
    return True


def expected_result(op):
    k = op[0]
    if k in ('qset', 'qsetn'):
        return None
    if k in ('qnames', 'bnames'):
        return ['a', 'b', 'c']
    if k in ('qgnpa', 'bgnpa'):
        if op[1] == 'zz':
            return None
        if op[2] is None:
            return 'PA:' + op[1]
        return ['%s.%s' % (op[1], op[2])]
    if k in ('qdump', 'dump'):
        return [None]
    if k == 'qprocs':
        return ['PA:' + 'ab'[op[1]]]
    if k == 'qcomb':
        return 'RPA:c:3'
    raise ValueError(op)


# ------------------------------------------------------------------ runner
class Run(object):
    pass


def run_one(case):
    """Execute one (program, schedule); returns a Run with the history."""
    validate(case)
    sc = S.Scheduler(case.get('schedule', ()), case.get('tail', 'rr'),
                     max_steps=MAX_STEPS)
    mod = S.load_with_shim(controller_path(), 'pysph.solver.controller', sc)
    events = []

    def log(typ, **kw):
        if sc.aborted:
            return
        kw['type'] = typ
        kw['th'] = sc.me().name
        kw['i'] = len(events)
        kw['step'] = len(sc.order)
        events.append(kw)

    solver = StandInSolver(log, int(case.get('interval', 1)))
    cm = mod.CommandManager(solver)
    for k, v in vars(cm).items():
        if isinstance(v, S.VCondition):
            v.set_name(k)
        elif isinstance(v, S.VLock):
            v.name = k
    solver.arm()
    ifaces = case['ifaces']
    block0 = case.get('block0', [True] * len(ifaces))
    late = [int(x) for x in case.get('late', [0] * len(ifaces))]
    xml = case.get('xmlrpc', [False] * len(ifaces))
    ithreads = []
    ids = {}          # (thread name, q index) -> task id
    fetched = set()
    fatal = []

    def do_op(ctrl, op, myq, st):
        kind = op[0]
        need = NEEDS_MODE.get(kind)
        if need is not None and st['mode'] != need:
            # no synchronisation inside: not a scheduling point
            ctrl.set_blocking(need)
            st['mode'] = need
        if kind == 'get':
            return ctrl.get(op[1])
        if kind == 'getn':
            return getattr(ctrl, 'get_' + op[1])()
        if kind in ('set', 'qset'):
            return ctrl.set(op[1], op[2])
        if kind in ('setn', 'qsetn'):
            return getattr(ctrl, 'set_' + op[1])(op[2])
        if kind == 'setci':
            return ctrl.set('command_interval', op[1])
        if kind in ('qnames', 'bnames'):
            return ctrl.get_particle_array_names()
        if kind in ('qgnpa', 'bgnpa'):
            if op[2] is None:
                return ctrl.get_named_particle_array(op[1])
            return ctrl.get_named_particle_array(op[1], [op[2]])
        if kind in ('qdump', 'dump'):
            return ctrl.dump_output()
        if kind == 'qprocs':
            if op[2:] == ['default']:       # see EXCLUDED
                return ctrl.get_particle_array_from_procs(op[1])
            return ctrl.get_particle_array_from_procs(op[1], [0])
        if kind == 'qcomb':
            if op[1:] == ['default']:       # see EXCLUDED
                return ctrl.get_particle_array_combined(2)
            return ctrl.get_particle_array_combined(2, procs=[0])
        if kind == 'result':
            r = ctrl.get_result(myq[op[1]])
            fetched.add((st['name'], op[1]))
            return r
        if kind == 'tasklock':
            lk = ctrl.get_task_lock(myq[op[1]])
            if not isinstance(lk, S.VLock):
                return ['notalock', repr(lk)]
            return ['lock', not lk.locked()]
        if kind == 'listmethods':
            return getattr(ctrl, 'system.listMethods')()
        if kind == 'status':
            return ctrl.get_status()
        if kind == 'ping':
            return ctrl.ping()
        if kind == 'propnames':
            return sorted(ctrl.get_prop_names())
        if kind == 'getblk':
            return [ctrl.get_blocking(), st['mode']]
        if kind in ('badget', 'badset', 'qbadset'):
            # a name that is not a solver property: the dispatcher rejects
            # it; what matters is that it leaves no lock held
            try:
                if kind == 'badget':
                    ctrl.get('no_such_property')
                else:
                    ctrl.set('no_such_property', 1)
            except S.SchedAbort:
                raise
            except Exception as ex:
                return ['rejected', type(ex).__name__]
            return ['accepted']
        if kind == 'pause':
            return ctrl.pause_on_next()
        if kind == 'wait':
            return ctrl.wait()
        if kind == 'cont':
            return ctrl.cont()
        raise ValueError(kind)

    def make_body(i, ops):
        name = 'I%d' % i

        def body(ctrl):
            me = sc.me()
            me.name, me.role = name, 'interface'
            myq = []
            st = dict(name=name, mode=bool(block0[i]))
            for k, op in enumerate(ops):
                kind = op[0]
                log('call', k=k, op=op)
                try:
                    r = do_op(ctrl, op, myq, st)
                except S.SchedAbort:
                    raise
                except Exception as ex:
                    fatal.append(dict(th=name, k=k, op=op,
                                      exc=type(ex).__name__, msg=str(ex)))
                    log('exc', k=k, op=op, exc=type(ex).__name__)
                    sc._abort('exception')
                    raise S.SchedAbort()
                if kind in QKINDS:
                    ids[(name, len(myq))] = r
                    myq.append(r)
                log('ret', k=k, op=op, val=canon_value(r))
        if not xml[i]:
            return body

        def serve(ctrl):
            # what Application does for --xml-rpc: add_interface(
            # XMLRPCInterface(addr).start); the socket is never bound and
            # the request loop is replaced by the program of this thread
            from pysph.solver.solver_interfaces import XMLRPCInterface
            srv = XMLRPCInterface(('127.0.0.1', 0), logRequests=False,
                                  bind_and_activate=False)
            srv.serve_forever = lambda *a, **k: body(RpcProxy(srv, sc))
            try:
                srv.start(ctrl)
            finally:
                srv.server_close()
        return serve

    pending = sorted(range(len(ifaces)), key=lambda i: (late[i], i))

    def all_done():
        return not pending and \
            all(t.state == S.FINISHED for t in ithreads)

    def all_stuck():
        return not pending and \
            all(t.state in (S.FINISHED, S.BLOCKED) for t in ithreads)

    def add_due(n):
        while pending and late[pending[0]] <= n:
            i = pending.pop(0)
            try:
                t = cm.add_interface(make_body(i, ifaces[i]),
                                     bool(block0[i]))
            except S.SchedAbort:
                raise
            except Exception as ex:
                fatal.append(dict(th='S', k=i, op=['add_interface'],
                                  exc=type(ex).__name__, msg=str(ex)))
                sc._abort('exception')
                raise S.SchedAbort()
            t.name, t.role = 'I%d' % i, 'interface'
            ithreads.append(t)

    def solver_body():
        me = sc.me()
        add_due(0)
        n = 0
        idle = 0
        skipped = 0
        last = sc.activity_except(me)
        while True:
            sc.yield_()
            log('step')
            solver.__dict__['count'] += 1
            # what Solver.solve does with the handler
            if solver.count % solver.command_interval != 0 and skipped < 3:
                skipped += 1
                continue
            skipped = 0
            done = all_done()
            log('cp_enter', n=n)
            try:
                cm.execute_commands(solver)
            except S.SchedAbort:
                raise
            except Exception as ex:
                fatal.append(dict(th='S', k=n, op=['execute_commands'],
                                  exc=type(ex).__name__, msg=str(ex)))
                sc._abort('exception')
                raise S.SchedAbort()
            log('cp_exit', n=n)
            n += 1
            if done and n >= case['min_cp']:
                break
            add_due(n)
            act = sc.activity_except(me)
            if act == last and all_stuck() and not all_done():
                idle += 1
            else:
                idle = 0
            last = act
            if idle >= 2:
                log('gave_up')
                return
        # drain: results nobody fetched must still be delivered
        for key in sorted(ids):
            if key not in fetched:
                log('drain_call', key=list(key))
                try:
                    r = cm.get_result(ids[key])
                except S.SchedAbort:
                    raise
                except Exception as ex:
                    fatal.append(dict(th='S', k=-1, op=['get_result'],
                                      exc=type(ex).__name__, msg=str(ex)))
                    sc._abort('exception')
                    raise S.SchedAbort()
                log('drain_ret', key=list(key), val=canon_value(r))

    sleepers = []

    def monitor():
        # A thread asleep in wait() although its predicate (`paused`) holds
        # and nobody is inside the critical section that could still notify
        # it: its wake-up now depends on what *other* threads happen to do
        # next.  On the documented protocol this state cannot exist (the flag
        # is only raised under plock, followed by notify_all before the lock
        # is released; a waiter only goes to sleep when the flag is down).
        pl = getattr(cm, 'plock', None)
        if sleepers or not isinstance(pl, S.VCondition):
            return
        if pl.waiters and getattr(cm, 'paused', False) and \
                pl._lock.owner is None:
            sleepers.append(dict(step=len(sc.order),
                                 threads=sorted(t.name for t in pl.waiters)))
    sc.monitor = monitor
    root = sc.spawn(solver_body, 'S', 'solver')
    status = sc.run([root])
    if status == 'harness':
        raise S.HarnessError('scheduler did not terminate: %r' % (case,))
    r = Run()
    r.case, r.sc, r.events, r.status, r.fatal = case, sc, events, status, fatal
    r.cm = cm
    r.sleepers = sleepers
    r.paused_idents = set(cm.pause)
    r.thread_exc = [(t.name, t.exc, t.exc_tb) for t in sc.threads
                    if t.exc is not None]
    return r


# ------------------------------------------------------------------ oracle
def deadlock_core(run):
    """Blocked threads that wait only on each other (sink components of the
    wait-for graph); the rest are victims of those."""
    info = run.sc.blocked_info()
    by = dict((b['thread'], b) for b in info)
    ident = dict((t.ident, t.name) for t in run.sc.threads)
    paused = set(ident.get(i) for i in run.paused_idents)
    edges = {}
    for b in info:
        e = set()
        if b['op'] == 'acquire' and b['owner'] is not None and \
                b['owner'] != b['thread'] and \
                not b['obj'].startswith('Lock[dispatch]'):
            e.add(b['owner'])
        elif b['op'] == 'join' and b['owner'] is not None:
            e.add(b['owner'])
        elif b['role'] == 'interface':
            # task lock / plock.wait: only the solver releases / notifies
            e.add('S')
        elif b['role'] == 'solver' and b['op'] == 'wait':
            e.update(p for p in paused if p)
        else:
            e.update(x for x in by if x != b['thread'])
        edges[b['thread']] = set(x for x in e if x in by)
    reach = {}
    for a in by:
        seen, todo = set(), list(edges[a])
        while todo:
            x = todo.pop()
            if x not in seen:
                seen.add(x)
                todo.extend(edges[x])
        reach[a] = seen
    core = [a for a in by if all(a in reach[c] for c in reach[a])]
    if not core:
        core = list(by)
    return sorted(set('%s@%s:%s' % (by[a]['role'], by[a]['function'],
                                    by[a]['prim']) for a in core)), info


def analyse(run):
    case, ev, sc = run.case, run.events, run.sc
    fails, labels = [], []
    F = lambda kind, detail, **kl: fails.append(  # noqa
        Failure(COMPONENT, kind, detail, kl))
    complete = run.status == 'ok'
    n_if = len(case['ifaces'])
    labels.append('status:' + run.status)
    labels.append('tail:' + case.get('tail', 'rr'))
    labels.append('threads:%d' % n_if)
    if int(case.get('interval', 1)) > 1:
        labels.append('interval>1')
    if not all(case.get('block0', [True] * n_if)):
        labels.append('block0:false')
    if any(case.get('late', [0] * n_if)):
        labels.append('late_iface')
    for x in case.get('excluded', []):
        labels.append('excluded:' + x)
    if any(case.get('xmlrpc', [])):
        labels.append('xmlrpc_iface')
    for ops in case['ifaces']:
        for op in ops:
            labels.append('op:' + op[0])

    if run.status == 'deadlock':
        core, info = deadlock_core(run)
        F('deadlock', 'no runnable thread; blocked: %s' % ', '.join(
            '%s(%s)@%s:%d:%s' % (b['thread'], b['role'], b['function'],
                                 b['lineno'], b['prim']) for b in info),
          blocked=core)
    for sl in getattr(run, 'sleepers', []):
        F('lost_wakeup', 'at scheduling point %d thread(s) %s are asleep in '
          'wait() although the solver has published paused=True and nobody '
          'holds the pause lock: the notification did not reach them' % (
              sl['step'], ', '.join(sl['threads'])), what='sleeper')
    for x in run.fatal:
        F('exception', '%s in %s op %s: %s: %s' % (
            x['th'], 'solver' if x['th'] == 'S' else 'interface',
            x['op'], x['exc'], x['msg']), op=x['op'][0], exc=x['exc'])
    for name, exc, tb in run.thread_exc:
        # every call into the code under test is wrapped; this is ours
        raise S.HarnessError('harness thread %s died: %r\n%s' % (
            name, exc, tb))

    # ---- sequential pass over the history
    cur = dict(t=0.0, tf=1.0, dt=0.1, pfreq=10)
    depth = 0
    cp_of = {}                  # event index -> inside control point?
    execs = []                  # indices of command executions by S
    sets_by_val = {}
    tok_events = {}
    invoked, returned = [], []  # event indices of queue-op calls / returns
    hist = {}                   # prop -> list of (idx, val)
    calls = {}                  # (th, k) -> call event
    rets = {}
    s_marks = []                # (idx, type) of S step / cp_enter / cp_exit
    pr_events = []              # particles_read
    dump_events = []
    open_call = {}              # th -> op of the call it is inside
    for e in ev:
        t = e['type']
        if t == 'cp_enter':
            depth = 1
            s_marks.append((e['i'], t))
        elif t == 'cp_exit':
            depth = 0
            s_marks.append((e['i'], t))
        elif t == 'step':
            s_marks.append((e['i'], t))
        elif t == 'attr_set':
            hist.setdefault(e['name'], []).append((e['i'], e['val']))
            sets_by_val.setdefault((e['name'], e['val']), []).append(e)
            if e['th'] == 'S':
                execs.append(e['i'])
        elif t in ('particles_read', 'dump'):
            (pr_events if t == 'particles_read' else dump_events).append(e)
            e['within'] = open_call.get(e['th'])
            if e['th'] == 'S':
                execs.append(e['i'])
        elif t == 'pa_attr':
            tok_events.setdefault((e['pa'], e['attr']), []).append(e)
        elif t == 'call':
            calls[(e['th'], e['k'])] = e
            open_call[e['th']] = e['op'][0]
            if e['op'][0] in QKINDS:
                invoked.append(e['i'])
        elif t == 'ret':
            rets[(e['th'], e['k'])] = e
            open_call[e['th']] = None
            if e['op'][0] in QKINDS:
                returned.append(e['i'])
        cp_of[e['i']] = depth == 1

    def count_before(lst, i):
        return sum(1 for x in lst if x < i)

    def in_cp_at(i):
        """is the solver inside a control point just before event i?"""
        last = None
        for (j, t) in s_marks:
            if j < i and t in ('cp_enter', 'cp_exit'):
                last = t
        return last == 'cp_enter'

    # a queued array / dump command runs in the solver thread inside a
    # control point; the same command in blocking mode runs inside the call
    for e in pr_events:
        ok = (e['th'] == 'S' and cp_of[e['i']]) or \
            (e['th'] != 'S' and e['within'] in BLAZY)
        if not ok:
            F('command_outside_control_point', 'an array command ran in '
              'thread %s (inside control point: %s, inside call: %s)' % (
                  e['th'], cp_of[e['i']], e['within']), cmd='lazy')
            break
    for e in dump_events:
        ok = (e['th'] == 'S' and cp_of[e['i']]) or \
            (e['th'] != 'S' and e['within'] == 'dump')
        if not ok:
            F('command_outside_control_point', 'dump_output ran in thread '
              '%s (inside control point: %s, inside call: %s)' % (
                  e['th'], cp_of[e['i']], e['within']), cmd='dump')
            break

    n_lazy = n_qdump = 0
    cmd_while_paused = False
    pause_windows = []          # (th, wait_ret idx or None, cont_call idx)
    for i, ops in enumerate(case['ifaces']):
        th = 'I%d' % i
        q = []                  # ops queued by this thread, in order
        blk = None
        for k, op in enumerate(ops):
            c, r = calls.get((th, k)), rets.get((th, k))
            kind = op[0]
            if c is None:
                break
            if kind in QKINDS:
                q.append((k, op))
                if kind in QLAZY:
                    n_lazy += 1
                if kind == 'qdump':
                    n_qdump += 1
                if r is not None:
                    v = r['val']
                    if not (isinstance(v, str) and v.lstrip('-').isdigit()):
                        F('task_id', 'non-blocking %s returned %r, not a '
                          'task id' % (kind, v))
            if kind in ('qset', 'qsetn'):
                xs = sets_by_val.get((op[1], op[2]), [])
                if len(xs) > 1:
                    F('duplicate_command', 'queued set %s=%r executed %d '
                      'times' % (op[1], op[2], len(xs)), cmd='qset')
                if not xs and complete:
                    F('lost_command', 'queued set %s=%r of %s never '
                      'executed although the solver ran a control point '
                      'after all interfaces finished' % (op[1], op[2], th),
                      cmd='qset')
                for x in xs:
                    if x['th'] != 'S' or not cp_of[x['i']] or \
                            x['i'] < c['i']:
                        F('command_outside_control_point', 'queued set '
                          '%s=%r ran in thread %s, inside control point: %s'
                          % (op[1], op[2], x['th'], cp_of[x['i']]),
                          cmd='qset')
            elif kind == 'qgnpa' and op[1] != 'zz' and op[2] is not None:
                xs = tok_events.get((op[1], op[2]), [])
                if len(xs) > 2:
                    F('duplicate_command', 'queued array query %s executed '
                      'more than once (%d attribute reads)' % (op, len(xs)),
                      cmd='qgnpa')
                if not xs and complete:
                    F('lost_command', 'queued %s of %s never executed'
                      % (op, th), cmd='qgnpa')
                for x in xs:
                    if x['th'] != 'S' or not cp_of[x['i']] or \
                            x['i'] < c['i']:
                        F('command_outside_control_point', 'queued %s ran '
                          'in thread %s' % (op, x['th']), cmd='qgnpa')
            elif kind == 'result' and r is not None:
                qk, qop = q[op[1]]
                exp = expected_result(qop)
                if r['val'] != exp:
                    F('wrong_result', 'get_result for %s of %s returned %r, '
                      'expected %r' % (qop, th, r['val'], exp), cmd=qop[0])
                if blk is not None:
                    labels.append('result_in_pause_block')
            elif kind == 'tasklock' and r is not None:
                qk, qop = q[op[1]]
                v = r['val']
                if v[0] != 'lock':
                    F('task_lock', 'get_task_lock returned %r' % (v[1],))
                elif v[1]:
                    # the lock is free: the docs say the result is available
                    labels.append('tasklock:available')
                    xs = None
                    if qop[0] in ('qset', 'qsetn'):
                        xs = sets_by_val.get((qop[1], qop[2]), [])
                    elif qop[0] == 'qgnpa' and qop[1] != 'zz' and \
                            qop[2] is not None:
                        xs = tok_events.get((qop[1], qop[2]), [])
                    if xs is not None and \
                            not any(x['i'] < r['i'] for x in xs):
                        F('task_lock', 'the task lock of %s of %s was free '
                          'before the command had been executed' % (qop, th),
                          cmd=qop[0])
                else:
                    labels.append('tasklock:pending')
            elif kind in ('get', 'getn') and r is not None:
                cand = set()
                v0 = cur_at(hist, op[1], c['i'], cur)
                cand.add(v0)
                for (j, v) in hist.get(op[1], []):
                    if c['i'] < j < r['i']:
                        cand.add(v)
                if r['val'] not in cand:
                    F('get_value', 'get(%s) returned %r; the property held '
                      '%r during the call' % (op[1], r['val'], sorted(
                          cand, key=repr)))
            elif kind in ('set', 'setn') and r is not None:
                xs = sets_by_val.get((op[1], op[2]), [])
                ok = len(xs) == 1 and xs[0]['th'] == th and \
                    c['i'] < xs[0]['i'] < r['i']
                if not ok:
                    F('set_effect', 'blocking set(%s,%r) by %s: %d '
                      'assignments %r' % (op[1], op[2], th, len(xs),
                                          [(x['th'], x['i']) for x in xs]))
            elif kind == 'setci' and r is not None:
                xs = [x for x in sets_by_val.get(('command_interval', op[1]),
                                                 [])
                      if x['th'] == th and c['i'] < x['i'] < r['i']]
                if len(xs) != 1:
                    F('set_effect', 'blocking set(command_interval,%r) by '
                      '%s: %d assignments inside the call' % (
                          op[1], th, len(xs)))
            elif kind in ('dump', 'bnames', 'bgnpa') and r is not None:
                exp = expected_result(op)
                if r['val'] != exp:
                    F('wrong_result', 'blocking %s of %s returned %r, '
                      'expected %r' % (op, th, r['val'], exp), cmd=kind)
                src = dump_events if kind == 'dump' else pr_events
                xs = [x for x in src
                      if x['th'] == th and c['i'] < x['i'] < r['i']]
                if len(xs) != 1:
                    F('blocking_effect', 'blocking %s of %s: executed %d '
                      'times inside the call' % (op, th, len(xs)), cmd=kind)
            elif kind in ('badget', 'badset', 'qbadset') and r is not None:
                # no promise on how an unknown property is refused; the
                # point is that the next calls still work
                labels.append('unknown_prop:' + r['val'][0])
            elif kind == 'getblk' and r is not None:
                if r['val'][0] is not r['val'][1]:
                    F('blocking_mode', 'get_blocking() returned %r, the '
                      'mode last set is %r' % tuple(r['val']))
            elif kind == 'listmethods' and r is not None:
                miss = [m for m in DOCUMENTED_METHODS if m not in r['val']]
                if miss:
                    F('misc_return', 'system.listMethods of the XML-RPC '
                      'interface lacks %r' % (miss,))
            elif kind == 'ping' and r is not None:
                if r['val'] is not True:
                    F('misc_return', 'ping() returned %r' % (r['val'],))
            elif kind == 'propnames' and r is not None:
                if not set(PROPS + ('command_interval',)) <= set(r['val']):
                    F('misc_return', 'get_prop_names() returned %r' % (
                        r['val'],))
            elif kind == 'status' and r is not None:
                v = r['val']
                ok = isinstance(v, str) and v.startswith('commands queued: ')
                if ok:
                    try:
                        nq = int(v.split(':')[1])
                    except ValueError:
                        ok = False
                if ok:
                    # one command may have left the queue without having
                    # been logged as executed yet
                    lo = max(0, count_before(returned, c['i']) -
                             count_before(execs, r['i']) - 1)
                    hi = count_before(invoked, r['i']) - \
                        count_before(execs, c['i'])
                    ok = lo <= nq <= hi
                if not ok:
                    F('status', 'get_status returned %r' % (v,))
            elif kind == 'pause':
                blk = dict(pause_ret=r['i'] if r else None, wait_call=None,
                           wait_ret=None, pause_step=r['step'] if r else None,
                           waits=0)
                if r is not None and r['val'] is not True:
                    F('pause_return', 'pause_on_next returned %r' % (
                        r['val'],))
            elif kind == 'wait':
                labels.append('wait_called')
                blk['waits'] += 1
                if blk['waits'] > 1:
                    labels.append('wait_twice')
                if blk['pause_step'] is not None and blk['waits'] == 1:
                    # up to the moment this thread's wait() registers on
                    # the condition (or returns without having to)
                    end = r['step'] if r is not None else len(sc.order)
                    for (stp, who, obj, o) in sc.ops:
                        if who == th and o == 'wait' and stp > c['step']:
                            end = min(end, stp)
                            break
                    between = sc.order[blk['pause_step']:end]
                    if any(x != th for x in between):
                        labels.append('nt:switch_pause_wait')
                if r is not None:
                    if blk['wait_ret'] is None:
                        blk['wait_ret'] = r['i']
                    if r['val'] is not True:
                        F('wait_return', 'wait returned %r' % (r['val'],))
                    if not in_cp_at(r['i']):
                        F('pause_violated', '%s: wait() returned while the '
                          'solver was not inside a control point' % th,
                          how='wait_returned_outside_control_point')
            elif kind == 'cont':
                lo = blk['wait_ret']
                if lo is not None:
                    bad = [(j, t) for (j, t) in s_marks if lo < j < c['i']]
                    if bad:
                        F('pause_violated', '%s: between wait() returning '
                          '(event %d) and cont() (event %d) the solver did '
                          '%s' % (th, lo, c['i'], bad[:4]),
                          how='solver_progress_before_cont')
                    if any(lo < x < c['i'] for x in execs):
                        cmd_while_paused = True
                pr = blk['pause_ret']
                if pr is not None:
                    enters = [j for (j, t) in s_marks
                              if t == 'cp_enter' and pr < j < c['i']]
                    for j in enters:
                        ex = [jj for (jj, t) in s_marks
                              if t == 'cp_exit' and jj > j]
                        if ex and ex[0] < c['i']:
                            F('pause_ignored', '%s: a control point entered '
                              'after pause_on_next returned (event %d) was '
                              'left (event %d) before cont() (event %d)' % (
                                  th, j, ex[0], c['i']))
                            break
                    if any(t == 'step' and pr < j < c['i']
                           and not any(tt == 'cp_enter' and jj == j + 1
                                       for (jj, tt) in s_marks)
                           for (j, t) in s_marks):
                        labels.append('step_without_cp_in_pause_block')
                pause_windows.append((th, pr, c['i']))
                if blk['wait_ret'] is None and not any(
                        o[0] == 'wait' for o in _block_ops(ops, k)):
                    labels.append('pause_without_wait')
                blk = None
    if cmd_while_paused:
        labels.append('cmd_run_while_paused')
    # lazy commands: one read of solver.particles each
    n_pr = sum(1 for e in pr_events if e['th'] == 'S')
    if n_pr > n_lazy:
        F('duplicate_command', '%d queued array commands but solver.'
          'particles was read %d times' % (n_lazy, n_pr), cmd='lazy')
    if complete and n_pr < n_lazy:
        F('lost_command', '%d queued array commands but solver.particles '
          'was read %d times' % (n_lazy, n_pr), cmd='lazy')
    n_dump = sum(1 for e in dump_events if e['th'] == 'S')
    if n_dump > n_qdump:
        F('duplicate_command', '%d queued dump_output commands but the '
          'solver dumped %d times' % (n_qdump, n_dump), cmd='qdump')
    if complete and n_dump < n_qdump:
        F('lost_command', '%d queued dump_output commands but the solver '
          'dumped %d times' % (n_qdump, n_dump), cmd='qdump')
    # drained results
    for e in ev:
        if e['type'] == 'drain_ret':
            th, qi = e['key']
            qops = [op for op in case['ifaces'][int(th[1:])]
                    if op[0] in QKINDS]
            exp = expected_result(qops[qi])
            if e['val'] != exp:
                F('wrong_result', 'result of %s of %s (fetched after the '
                  'run) is %r, expected %r' % (qops[qi], th, e['val'], exp),
                  cmd=qops[qi][0])
    # two interfaces paused at the same time
    for a in pause_windows:
        for b in pause_windows:
            if a[0] < b[0] and a[1] is not None and b[1] is not None \
                    and a[1] < b[2] and b[1] < a[2]:
                labels.append('two_paused')
    for (w, o, l) in sc.contention:
        if w.startswith('I') and o.startswith('I') and w != o:
            labels.append('nt:iface_contention')
    labels = sorted(set(labels))
    nontrivial = 'nt:switch_pause_wait' in labels or \
        'nt:iface_contention' in labels
    return fails, labels, nontrivial


def _block_ops(ops, k):
    """ops of the pause block that ends with the cont at position k"""
    j = k
    while j >= 0 and ops[j][0] != 'pause':
        j -= 1
    return ops[j:k]


def cur_at(hist, prop, i, init):
    v = init[prop]
    for (j, x) in hist.get(prop, []):
        if j < i:
            v = x
    return v


def check(case):
    run = run_one(case)
    fails, labels, nt = analyse(run)
    inconclusive = run.status == 'livelock'
    return fails, labels, nt, inconclusive, run


# ------------------------------------------------------------ generation
CORE_OPS = ['get', 'set', 'status', 'qset', 'qnames', 'qgnpa']
# calls of the Controller API beyond the core protocol
EXTRA_OPS = ['getn', 'setn', 'qsetn', 'qdump', 'dump', 'qprocs', 'qcomb',
             'bnames', 'bgnpa', 'ping', 'propnames', 'getblk', 'badget',
             'badset', 'qbadset', 'setci']


@st.composite
def program_strategy(draw, max_total=12, max_per=6, rich=True,
                     max_threads=MAX_IFACES):
    nthr = draw(st.sampled_from(
        [1, 2, 2, 2, 2, min(3, max_threads)] if rich else [1, 2, 2]))
    ifaces = []
    xml = []
    total = 0
    excluded = set()
    for i in range(nthr):
        room = max_total - total - (nthr - 1 - i)
        n = draw(st.integers(1, max(1, min(max_per, room))))
        ops = []
        paused = False
        waits = 0
        nq = 0
        fetched = []
        isxml = rich and draw(st.sampled_from([False, False, False, True]))
        xml.append(isxml)
        while len(ops) < n:
            ch = list(CORE_OPS)
            if rich:
                ch += CORE_OPS + EXTRA_OPS
            if isxml:
                ch = [c for c in ch if c not in NOT_MARSHALLABLE]
                ch.append('listmethods')
            if nq - len(fetched) > 0:
                ch += ['result'] * (8 if rich else 3)
                if rich and not isxml:
                    ch += ['tasklock'] * 2
            if not paused:
                if len(ops) + 2 <= n:
                    ch += ['pause'] * (12 if rich else 4)
            else:
                ch += ['cont'] * (6 if rich else 2)
                if len(ops) + 2 <= n:
                    if waits == 0:
                        ch += ['wait'] * (24 if rich else 4)
                    elif rich:
                        ch += ['wait'] * 3
                if len(ops) + 1 >= n:
                    ch = ['cont']
            kind = draw(st.sampled_from(ch))
            val = 100 * (i + 1) + len(ops)
            if kind in ('get', 'getn'):
                ops.append([kind, draw(st.sampled_from(PROPS))])
            elif kind in ('set', 'qset', 'setn', 'qsetn'):
                ops.append([kind, draw(st.sampled_from(PROPS)), val])
            elif kind == 'setci':
                ops.append(['setci', draw(st.sampled_from([1, 2, 3]))])
            elif kind in ('qgnpa', 'bgnpa'):
                if rich:
                    nm = draw(st.sampled_from(['a', 'b', 'a', 'b', 'zz']))
                    pr = draw(st.sampled_from(['p', 'p', 'p', None]))
                    if isxml and nm != 'zz':
                        pr = 'p'
                else:
                    nm = draw(st.sampled_from(['a', 'b']))
                    pr = 'p'
                ops.append([kind, nm, None if pr is None else 'p%d' % val])
            elif kind in ('dump', 'qdump') and 'solver_method' in EXCLUDED:
                # nearest working call: the same array command class /
                # a blocking call of another kind
                excluded.add('solver_method')
                kind = 'qnames' if kind == 'qdump' else 'bnames'
                ops.append([kind])
            elif kind in ('qprocs', 'qcomb'):
                op = [kind] + ([draw(st.sampled_from([0, 1]))]
                               if kind == 'qprocs' else [])
                if draw(st.sampled_from([False, True])):
                    if 'default_procs' in EXCLUDED:
                        excluded.add('default_procs')
                    else:
                        op.append('default')
                ops.append(op)
            elif kind in ('result', 'tasklock'):
                free = [j for j in range(nq) if j not in fetched]
                j = draw(st.sampled_from(free))
                if kind == 'result':
                    fetched.append(j)
                ops.append([kind, j])
            elif kind == 'pause':
                paused, waits = True, 0
                ops.append(['pause'])
            elif kind == 'wait':
                waits += 1
                ops.append(['wait'])
            elif kind == 'cont':
                paused = False
                ops.append(['cont'])
            else:
                ops.append([kind])
            if kind in QKINDS:
                nq += 1
        if paused:
            ops.append(['cont'])
        total += len(ops)
        ifaces.append(ops)
    prog = dict(min_cp=draw(st.integers(1, 6)), ifaces=ifaces)
    if rich:
        # defaults first: Hypothesis shrinks towards them
        b0 = [draw(st.sampled_from([True, True, False]))
              for _ in range(nthr)]
        if not all(b0):
            prog['block0'] = b0
        late = [0] * nthr
        if draw(st.sampled_from([False, False, True])):
            late = [draw(st.sampled_from([0, 1, 2, 3])) for _ in range(nthr)]
        if any(late):
            prog['late'] = late
        iv = draw(st.sampled_from([1, 1, 1, 2, 3]))
        if iv != 1:
            prog['interval'] = iv
    if any(xml):
        prog['xmlrpc'] = xml
    if excluded:
        prog['excluded'] = sorted(excluded)
    return prog


@st.composite
def case_strategy(draw, rich=True):
    prog = draw(program_strategy(rich=rich))
    prog['schedule'] = draw(st.lists(st.integers(0, 5), max_size=80))
    prog['tail'] = draw(st.sampled_from(['rr', 'stay']))
    return prog


# ----------------------------------------------------------- known / exec
def _known_id(f, known):
    from vlib.driver import matches
    flat = f.flat()
    for e in known:
        if matches(e, flat):
            return e.get('id', 'known')
    return None


def make_execute(known, stats):
    def execute(case):
        fails, labels, nt, inc, run = check(case)
        keep = []
        for f in fails:
            kid = _known_id(f, known) if known else None
            if kid is not None:
                labels.append('known:' + kid)
                hits = stats.extra.setdefault('known_open_hits', {})
                hits[kid] = hits.get(kid, 0) + 1
            else:
                keep.append(f)
        return Outcome(keep, sorted(set(labels)), nt, inconclusive=inc)
    return execute


# --------------------------------------------------------------------- DFS
def choice_cost(tr, c):
    n, chosen, dflt, kind, me_idx = tr
    if kind == 'pre':
        return 0 if c == dflt else 1
    if kind == 'yield':
        return 1 if c == me_idx else 0
    return 0


def dfs(prog, bound, cap, on_run):
    """Enumerate every schedule of `prog` with <= bound preemptions: explicit
    prefixes, 'stay' policy beyond the prefix, each alternative at every
    choice point past the prefix spawns a new prefix.  Schedules with fewer
    preemptions are run first (so that a truncated enumeration has covered
    the low-preemption ones), depth first among equals.
    on_run(case, result of check) is called for every execution; a true
    return value stops the enumeration.  Returns (runs, complete)."""
    import heapq
    heap = [(0, 0, (), 0, None)]
    seq = 0
    runs = 0
    while heap:
        if runs >= cap:
            return runs, False
        cost, _, parent, i, alt = heapq.heappop(heap)
        prefix = list(parent[:i]) + ([alt] if alt is not None else [])
        case = dict(prog, schedule=prefix, tail='stay')
        res = check(case)
        runs += 1
        run = res[4]
        trace = run.sc.trace
        choices = tuple(t[1] for t in trace)
        full = dict(case, schedule=list(choices))
        if on_run(full, res):
            return runs, False
        used = 0
        for j, tr in enumerate(trace):
            if j >= len(prefix):
                for a in range(tr[0]):
                    c = used + choice_cost(tr, a)
                    if a != tr[1] and c <= bound:
                        seq -= 1
                        heapq.heappush(heap, (c, seq, choices, j, a))
            used += choice_cost(tr, tr[1])
    return runs, True


def run_dfs_program(prog, bound, cap, known, stats, stop=None, name=None):
    """DFS over one program, recording every execution in stats; returns the
    list of (Failure, concrete case) that are not known findings.  `stop`
    (a set of masked signatures) ends the enumeration at the first failure
    whose signature is not in it."""
    new = []

    def on_run(full, res):
        fails, labels, nt, inc, run = res
        labels = list(labels)
        keep = []
        for f in fails:
            kid = _known_id(f, known) if known else None
            if kid is not None:
                labels.append('known:' + kid)
                hits = stats.extra.setdefault('known_open_hits', {})
                hits[kid] = hits.get(kid, 0) + 1
            else:
                keep.append(f)
        stats.record(full, Outcome(keep, sorted(set(labels)), nt,
                                   inconclusive=inc))
        for f in keep:
            new.append((f, full))
        return stop is not None and any(f.sig() not in stop for f in keep)
    runs, complete = dfs(prog, bound, cap, on_run)
    if complete:
        stats.label('dfs:complete')
        if name:
            stats.label('dfs:complete:' + name)
    elif runs >= cap:
        stats.label('dfs:truncated')
    else:
        stats.label('dfs:stopped_at_failure')
    stats.label('dfs:programs')
    return new, runs, complete


# ------------------------------------------------------------------ driver
# canonical programs: preemption bound per tier (two-interface programs have
# far more schedules; one run is ~2 ms)
CANON_BOUND_DOC = 'preemption bound per canonical program: (quick, thorough)'
CANON_BOUND = {
    'pause-wait-cont': (4, 5), 'pause-cont': (4, 5), 'queue-result': (4, 5),
    'paused-queue-result': (4, 4), 'two-queues': (1, 2),
    'two-pauses': (2, 3), 'two-waits': (2, 2), 'pause-vs-queue': (2, 3),
    'pause-twice': (3, 4), 'wait-wait': (4, 5), 'tasklock-poll': (4, 5),
    'interval-pause': (3, 4), 'nonblocking-late': (1, 2),
    'three-waits': (0, 1),
}


ESSENTIAL_LABELS['quick'] = _ESS + ['dfs:complete:' + _n
                                    for _n in sorted(CANON_BOUND)]


def plan(ctx):
    known = [dict(id=e.get('id'), match=e.get('match', {}))
             for e in ctx.get('known_open', [])]
    quick = ctx['tier'] == 'quick'
    specs = []
    n = 12800 if quick else 1000000
    k = 16
    for i in range(k):
        # even shards: the core protocol only (dense in pause / wait / cont
        # / queue / result); odd shards: the whole Controller API, 1-3
        # interfaces, non-blocking and late interfaces, command_interval
        specs.append(dict(name='rand-%02d' % i, mode='rand', rich=i % 2,
                          max_examples=n // k, known=known))
    for nm in sorted(CANON):
        specs.append(dict(name='dfs-canon-' + nm, mode='dfs-canon',
                          program=nm, bound=CANON_BOUND[nm][0 if quick else 1],
                          cap=80000 if quick else 400000, known=known))
    if not quick:
        for i in range(16):
            specs.append(dict(name='dfs-rand-%02d' % i, mode='dfs-rand',
                              rich=i % 2, max_examples=12, bound=3,
                              cap=30000, known=known))
    for i, s in enumerate(specs):
        s['cpu'] = i
    return specs


def _pin(spec):
    """Thread hand-over is ~6x faster when all threads of a worker share
    one CPU (no cross-CPU wake-ups)."""
    try:
        cpus = sorted(os.sched_getaffinity(0))
        os.sched_setaffinity(0, {cpus[int(spec.get('cpu', 0)) % len(cpus)]})
    except (AttributeError, OSError, ValueError):
        pass


def run_shard(spec, ctx):
    _pin(spec)
    stats = Stats()
    known = spec.get('known') or []
    seed = derive_seed(ctx.seed, 'C18', spec['name'])
    if spec['mode'] == 'rand':
        search(case_strategy(rich=bool(spec.get('rich', 0))),
               make_execute(known, stats), seed,
               spec['max_examples'], stats, shrink=True)
    elif spec['mode'] == 'dfs-canon':
        prog = CANON[spec['program']]
        new, runs, complete = run_dfs_program(prog, spec['bound'],
                                              spec['cap'], known, stats,
                                              name=spec['program'])
        for f, full in new:
            if f.sig() not in stats.masked:
                stats.masked.add(f.sig())
                stats.failures.append(f.as_dict(full))
            else:
                stats.duplicates += 1
        stats.extra['dfs_runs'] = runs
    else:
        concrete = {}
        side = dict(nontrivial=set(), samples=[])

        def execute(prog):
            sub = Stats()
            new, runs, complete = run_dfs_program(
                prog, spec['bound'], spec['cap'], known, sub,
                stop=stats.masked)
            stats.extra['dfs_runs'] = stats.extra.get('dfs_runs', 0) + runs
            for l, v in sub.labels.items():
                if l.startswith('dfs:') or l.startswith('known:'):
                    stats.label(l, v)
            fails, seen = [], set()
            for f, full in new:
                if f.sig() not in seen:
                    seen.add(f.sig())
                    fails.append(f)
                    concrete[(case_hash(prog), f.sig())] = full
            labs = [l for l in sub.labels if not l.startswith('dfs:')]
            side['nontrivial'].update(sub.nontrivial)
            if len(side['samples']) < 2:
                side['samples'].extend(sub.samples[:1])
            return Outcome(fails, labs, False)
        search(program_strategy(max_total=8, max_per=5, max_threads=2,
                                rich=bool(spec.get('rich', 0))),
               execute, seed,
               spec['max_examples'], stats, shrink=True)
        # what was executed are the (program, schedule) runs
        stats.extra['dfs_programs'] = stats.evaluations
        stats.evaluations = stats.extra.get('dfs_runs', 0)
        stats.nontrivial = side['nontrivial']
        stats.samples = side['samples']
        for d in stats.failures:
            f = Failure(d['component'], d['kind'], '', d.get('klass'))
            full = concrete.get((case_hash(d['case']), f.sig()))
            if full is not None:
                d['case'] = full
    return stats.result()


def run_case(case, component, ctx):
    _pin({})
    if 'schedule' not in case:
        # a bare program: enumerate its schedules
        out = []
        stats = Stats()
        new, _, _ = run_dfs_program(case, 3, 30000, [], stats)
        seen = set()
        for f, full in new:
            if f.sig() not in seen:
                seen.add(f.sig())
                out.append(f.as_dict(full))
        return out
    fails, _, _, _, _ = check(case)
    return [f.as_dict(case) for f in fails]
