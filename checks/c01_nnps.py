"""C01 - every neighbour-search algorithm returns exactly the true neighbour set.

One shard per algorithm class (several per class in the thorough tier).
Every generated case is executed in its own forked child process
(`run_isolated`), so a segfault, a heap corruption detected by glibc, an
out-of-memory allocation or a hang of the code under test becomes an ordinary
failure (`crash` / `hang`) of that case which Hypothesis shrinks like any
other; the shard process itself never runs code under test (and so stays
fork-safe with OpenMP).

The search runs in rounds.  A round ends with the first failure, which is
shrunk (only failures of the same kind count while shrinking, the number of
further executions is bounded); the *input class* of the failure - the static
tags (`tags_of`) common to the first failing case and the shrunk one - is then
added to an exclusion list that the generator honours by construction
(`repair`: the offending draw is replaced, nothing is filtered), counted under
the label `excluded:<tags>`, and the next round continues with what is left of
the budget.  Several root causes are therefore found in one run and a known
one does not hide what lies behind it.  Open known findings
(`known_findings.json`, passed by the driver to `plan`) whose `match` names a
class and `t:<tag>: true` keys are turned into the same kind of exclusion
(label `excluded:known:<id>:...`).

Case format (plain JSON, explicit numbers so that replays can be written by
hand):
  cls        pysph class name, e.g. 'LinkedListNNPS'
  dim, rs    dimension of the search, radius_scale
  knobs      extra constructor keywords
  sort_gids, gids (valid gids yes/no), cache, threads
  arrays     [{fam, x, y, z, h}]
  steps      history; each step is applied to the particle arrays and followed
             by update_domain(); update():
               {op:'move', arr, idx, x, y, z, rel}   rel: add to / replace
               {op:'scaleh', arr, idx, f}
               {op:'add', arr, x, y, z, h}
               {op:'remove', arr, idx}
               {op:'empty', arr}
  styles     per phase (len(steps)+1) the list of query styles:
               'gnp'  get_nearest_particles(s, d, i, nbrs) on its own
               'ctx'  set_context(s, d) then get_nearest_particles
               'all'  (cache) set_context; NeighborCache.find_all_neighbors()
  pair_order 0 dst-major, 1 reversed, 2 src-major
Optional keys (coverage audit; absent = the behaviour above):
  domain     {per:[bx,by,bz], n_layers, lo:[3], hi:[3]}: a periodic
             DomainManager is passed to the constructor; update_domain() then
             wraps the particles and appends ghost copies, which are ordinary
             sources/destinations for the oracle (step indices always refer
             to real particles, which come first)
  steps      further ops {op:'noop', arr} (nothing changes, update again) and
             {op:'usecache', arr, on} (set_use_cache(on), no update at all);
             a step may carry nodomain:true: update() without update_domain()
  styles     'raw'  set_context; NeighborCache.get_neighbors of nnps.cache
             'hall' gnp for every second particle, find_all_neighbors, gnp all
             'pre'  get_nearest_particles_no_cache(..., prealloc=True)
             'bf'   brute_force_neighbors (never sorted)
             'ext'  a NeighborCache built by hand on the NNPS (as the
                    upstream tests do): update(); set_context; get_neighbors
  pair_mod   per phase m: when m>0 the pairs with index%3 == m-1 are not
             queried in that phase (caches stay partly unfilled)
  qorder     1: destination particles are queried odd indices descending,
             then even ones ascending
  shared_nb  one UIntArray is used for cached and uncached queries alike
"""
import json
import math
import os
import signal
import sys
import time

from hypothesis import strategies as st

from vlib.hyp import Failure, Outcome, Stats, search, derive_seed, canon

RULE = ('cases = one of the 12 CPU NNPS classes with drawn tuning knobs x dim '
        '1-3 x 1-4 particle arrays of 0-64 (thorough 0-400) particles, each '
        'from a family (uniform, cluster sigma<<h, lattice on cell faces, '
        'collinear, coplanar, coincident, single, empty), common offset '
        '0/+-1e3/+-1e6, h constant / per array / log-uniform over up to 3 '
        'decades, radius_scale in {0.7,1,2,3} or [0.5,4], sort_gids, valid '
        'gids, cache, threads 1/2/3/8/16, a history of 0-4 (thorough 0-10) '
        'steps (move jitter/teleport/onto faces, rescale h, add, remove, '
        'empty, refill) each followed by update_domain();update(); after '
        'every phase all (src,dst) pairs queried by get_nearest_particles '
        'alone, after set_context, and (cache) after find_all_neighbors. '
        'Non-trivial = at least one query whose true neighbour set is '
        'neither empty nor the whole source AND (two arrays occupying '
        'different cell sets OR a history step OR a degenerate family); '
        'distinct by case hash.  Coverage audit: constructor keywords '
        'fixed_h (constant h only) and ghost_layers for every class, '
        'ZOrderNNPS(asymmetric); out-of-plane coordinates a non-zero '
        'constant; rs*hmax < 1e-6 (cell-size fall-back); a domain 70000 '
        'cells long, 3000 cells per axis in 3-D (sparse indices only); '
        'H=6 for the extended classes; thorough: now and then one array of '
        '1500 particles; a periodic DomainManager (1-3 '
        'periodic axes, n_layers 1-3) whose ghosts are sources and '
        'destinations; steps noop, set_use_cache(on/off), update() without '
        'update_domain() (moves/adds/removals while h is one constant); '
        'query styles NeighborCache.get_neighbors on the internal and on a '
        'hand-made cache, find_all_neighbors on a half-filled cache, '
        'get_nearest_particles_no_cache(prealloc=True), '
        'brute_force_neighbors; a third of the pairs skipped per phase; '
        'permuted query order; one neighbour array shared by cached and '
        'uncached queries; clusters of up to 256 (thorough 1600) particles '
        '(cache buffer growth).')
ASSUMPTIONS = [
    'pairs with |d2 - c2| <= 8*eps*c2, c = radius_scale*max(h_i,h_j), may '
    'go either way',
    'coordinates of axes >= dim are the same for all particles: zero or '
    'one non-zero constant (a 1-D/2-D simulation)',
    'fixed_h=True is generated only with one constant h (documented as '
    '"constant cell sizes"); ZOrderNNPS(H != 1) has no documented meaning '
    '(the keyword exists for ExtendedZOrderNNPS) and is not generated',
    'update() without update_domain() only after moves, additions and '
    'removals while every h ever present equals one constant and without a '
    'periodic domain (cell size, hmin and ghosts belong to the domain '
    'manager)',
    'a domain 70000 cells long only for the classes with a sparse index '
    '(linked list, box sort, hashes, trees); CellIndexingNNPS packs ids and '
    'cells into 32 bits, the Morton tables are dense in the key range',
    'periodic ghosts copy the gid of their original: with sort_gids the '
    'order among equal gids is free',
    'h = 0 or denormal is not generated (log2/division by h in the '
    'stratified classes; no documented meaning)',
    'grid extent bounded (<= 48 coarse cells per axis, dense Morton tables '
    '<= 2^22 keys) so that no class exceeds its representable capacity; '
    'RuntimeError "too many cells"/"Number of cells is negative" on a grid '
    'that really is larger than 2^28 cells is a documented rejection',
    'the thread count is set with set_number_of_threads before the NNPS is '
    'constructed (NeighborCache sizes its per-thread buffers at '
    'construction)',
    'ExtendedSpatialHashNNPS(approximate=True) is documented as approximate '
    'and not generated; DictBoxSortNNPS documents that it ignores cache',
    'StratifiedSFCNNPS(asymmetric=...) raises TypeError (keyword missing '
    'in __cinit__): clean rejection, only the default mode is tested',
    'gids, when valid, are unique per array',
    'StratifiedSFCNNPS builds its keys with a 32-bit shift by '
    '1+3*ceil(log2(extent/(radius_scale*hmin))): more than 512 cells of the '
    'smallest h per axis are not representable (it then crashes or drops '
    'neighbours instead of raising); treated like the other capacity '
    'limits, the generator stays below 480; with rs*hmax < 1e-6 the cell '
    'size falls back to 1.0 and the extent of a point-like set to one cell, '
    'i.e. far more than 512 cells of rs*hmin (segfault, replay '
    '/var/tmp/audC01/replays/04b5eb820a0a.json): tiny h is not generated '
    'for this class (label excluded:tiny_h_stratsfc_capacity)',
    'StratifiedHashNNPS scans (2*ceil(H*h_dst/h_src_level)+1)^3 boxes per '
    'query; to bound run time the generator keeps H*hmax/hmin <= 24 (less '
    'for cases with many queries) for this class; larger ratios are the '
    'open finding on its cost/crash',
    'a child that makes no progress for %d s is recorded as a hang '
    '(harness guard only)' % 90,
]

M = 65521
EPS = 2.0 ** -52
FAMILIES = ['uniform', 'cluster', 'lattice', 'collinear', 'coplanar',
            'coincident', 'single', 'empty']
OFFSETS = [0.0, 1e3, 0.0, -1e3, 1e6, 0.0, -1e6]
THREADS = [1, 2, 3, 8, 16]
TABLES = [131072, 1024, 7, 1]
LEAVES = [10, 32, 16, 8, 4, 2, 1]

CLASSES = {
    'LinkedList': 'LinkedListNNPS', 'BoxSort': 'BoxSortNNPS',
    'DictBoxSort': 'DictBoxSortNNPS', 'SpatialHash': 'SpatialHashNNPS',
    'ExtSpatialHash': 'ExtendedSpatialHashNNPS',
    'CellIndexing': 'CellIndexingNNPS', 'ZOrder': 'ZOrderNNPS',
    'ExtZOrder': 'ExtendedZOrderNNPS', 'StratHash': 'StratifiedHashNNPS',
    'StratSFC': 'StratifiedSFCNNPS', 'Octree': 'OctreeNNPS',
    'CompOctree': 'CompressedOctreeNNPS',
}
# knob name -> values, default (benign) value first: Hypothesis shrinks
# towards it, so a non-default value survives shrinking only when needed
GHOSTS = [1, 0, 2, 3]
FIXED = [False, False, False, False, True]
KNOBS = {
    'LinkedListNNPS': {}, 'BoxSortNNPS': {}, 'DictBoxSortNNPS': {},
    'CellIndexingNNPS': {},
    # ZOrderNNPS takes H/asymmetric only to hand them on to its subclass;
    # asymmetric is accepted and has no documented effect, H != 1 has no
    # documented meaning for the plain class and is not generated
    'ZOrderNNPS': {'asymmetric': [False, True]},
    'SpatialHashNNPS': {'table_size': TABLES},
    'ExtendedSpatialHashNNPS': {'H': [3, 1, 2, 4, 6], 'table_size': TABLES},
    'ExtendedZOrderNNPS': {'H': [3, 1, 2, 4, 6],
                           'asymmetric': [False, True]},
    'StratifiedHashNNPS': {'H': [1, 2, 3, 4], 'num_levels': [1, 2, 3, 4],
                           'table_size': TABLES},
    'StratifiedSFCNNPS': {'num_levels': [1, 2, 3, 4]},
    'OctreeNNPS': {'leaf_max_particles': LEAVES,
                   'test_parallel': [False, True]},
    'CompressedOctreeNNPS': {'leaf_max_particles': LEAVES,
                             'test_parallel': [False, True]},
}
for _c, _k in KNOBS.items():
    # constructor keywords every class takes (DictBoxSortNNPS has no
    # fixed_h); ghost_layers is documented as unused in serial runs
    _k['ghost_layers'] = GHOSTS
    if _c != 'DictBoxSortNNPS':
        _k['fixed_h'] = FIXED
DENSE = ('ZOrderNNPS', 'ExtendedZOrderNNPS', 'StratifiedSFCNNPS')
# classes whose index is sparse (hash table, dictionary, linked list with a
# one-dimensional head array, tree): a domain 70000 cells long (3000 cells
# along each of three axes) is within their capacity.  CellIndexingNNPS packs particle id and cell ids into 32
# bits and the dense Morton tables grow with the key range: not generated.
LONG_OK = ('LinkedListNNPS', 'BoxSortNNPS', 'DictBoxSortNNPS',
           'SpatialHashNNPS', 'ExtendedSpatialHashNNPS', 'OctreeNNPS',
           'CompressedOctreeNNPS')
OOP = [0.0, 5.0, -1234.5]
OLD_STYLES = [['ctx'], ['gnp'], ['gnp', 'ctx'], ['ctx', 'gnp'], ['all'],
              ['all', 'gnp'], ['gnp', 'all'], ['ctx', 'all', 'gnp']]
NEW_STYLES = [['ctx'], ['pre'], ['bf', 'ctx'], ['raw'], ['hall'],
              ['hall', 'raw'], ['gnp', 'pre', 'all'], ['ext'],
              ['ext', 'gnp'], ['raw', 'bf'], ['pre', 'hall']]
API_STYLES = ('raw', 'hall', 'pre', 'bf', 'ext')
ENVS = ['oop', 'periodic', 'tiny', 'long', 'periodic', 'oop+periodic']

ESSENTIAL_LABELS = {'all': [
    'empty_array', 'on_face_lattice', 'on_face_grid', 'far_offset',
    'multi_decade_h', 'history', 'cache_threads_gt1', 'sort_gids',
    'gids_valid', 'style:gnp', 'style:ctx', 'style:all', 'fresh_compared',
    'op:move', 'op:scaleh', 'op:add', 'op:remove', 'op:empty', 'op:refill',
    'new_hmax', 'dim1', 'dim2', 'dim3',
    # coverage audit
    'oop_const', 'periodic_domain', 'periodic_ghosts', 'tiny_h',
    'long_domain', 'update_without_domain', 'op:noop', 'op:usecache',
    'cache_switched_on', 'cache_switched_off', 'style:raw', 'style:hall',
    'style:pre', 'style:bf', 'style:ext', 'pairs_skipped', 'query_permuted',
    'shared_nbr_array', 'view_then_uncached', 'cache_growth', 'cache_add',
    'boosted', 'dense_stencil',
] + ['fam:' + f for f in FAMILIES] + sorted(CLASSES.values()) + sorted(set(
    'knob:%s=%s' % (k, v) for kn in KNOBS.values() for k, vs in kn.items()
    for v in vs))}
ESSENTIAL_LABELS['thorough'] = ESSENTIAL_LABELS['all'] + ['big_array']

SHARD_TIMEOUT = {'quick': 1500, 'thorough': 6 * 3600}
HANG_S = 90


# --------------------------------------------------------------------------
# static classification of a case
# --------------------------------------------------------------------------
def relabel(case):
    """Families that are decided by the data, whatever the label says."""
    for a in case['arrays']:
        n = len(a['x'])
        if n == 0:
            a['fam'] = 'empty'
        elif n == 1:
            a['fam'] = 'single'
        elif all(a['x'][i] == a['x'][0] and a['y'][i] == a['y'][0] and
                 a['z'][i] == a['z'][0] for i in range(n)):
            a['fam'] = 'coincident'
        elif a.get('fam') in ('empty', 'single', 'coincident', None):
            a['fam'] = 'uniform'
    return case


def tags_of(case):
    """Static input-class tags (sorted list of strings)."""
    t = set()
    arrs = case['arrays']
    for a in arrs:
        if a['fam'] != 'uniform':
            t.add('fam:' + a['fam'])
    for s in case.get('steps', []):
        t.add('op:' + s['op'])
    if 'fam:empty' in t or 'op:empty' in t:
        t.add('empty')
    xs = [[v for a in arrs for v in a[k]] for k in 'xyz']
    hs = [v for a in arrs for v in a['h']]
    # what the history may do to the range of h (upper estimate)
    hall = hs + [v for s in case.get('steps', []) if s['op'] == 'add'
                 for v in s['h']]
    up = dn = 1.0
    for s in case.get('steps', []):
        if s['op'] == 'scaleh':
            up *= max(1.0, s['f'])
            dn *= min(1.0, s['f'])
    if hall and max(hall) * up >= 100.0 * min(hall) * dn:
        t.add('multi_decade')
    if hs:
        if max(max(abs(v) for v in x) for x in xs) >= 500.0:
            t.add('far_offset')
        ext = [max(x) - min(x) for x in xs]
        if all(e == 0.0 for e in ext):
            t.add('point_extent')
        elif any(ext[k] == 0.0 for k in range(case['dim'])):
            t.add('zero_extent')
    else:
        t.add('no_particles')
    if len(arrs) > 1:
        t.add('multi_array')
    # ---- coverage-audit classes
    if any(v != 0.0 for a in arrs for k in 'xyz'[case['dim']:]
           for v in a[k]):
        t.add('oop')
    if case.get('domain'):
        t.add('periodic')
    if hs and case['rs'] * max(hs) < 1e-6:
        t.add('tiny_h')
    if case.get('long'):
        t.add('long')
    if any(s.get('nodomain') for s in case.get('steps', [])):
        t.add('nodomain')
    for ph in case.get('styles', []):
        for y in ph:
            if y in API_STYLES:
                t.add('sty:' + y)
    if case.get('shared_nb') or case.get('qorder') or \
            any(case.get('pair_mod', [])):
        t.add('qopts')
    if case.get('cache'):
        t.add('cache')
        if case['styles'] and case['styles'][0] and \
                case['styles'][0][0] == 'gnp':
            t.add('cache_gnp_first')
        if case.get('threads', 1) > 1:
            t.add('threads_gt1')
    if case.get('sort_gids'):
        t.add('sort_gids')
    kn = KNOBS.get(case['cls'], {})
    for k, v in sorted(case.get('knobs', {}).items()):
        if k in kn and v != kn[k][0]:
            t.add('knob:%s=%s' % (k, v))
        elif k not in kn:
            t.add('knob:%s' % k)
    return sorted(t)


def klass_of(case, extra=None):
    fams = sorted(set(a['fam'] for a in case['arrays']))
    tg = tags_of(case)
    k = {'class': case['cls'], 'dim': case['dim'],
         'has_history': bool(case.get('steps')), 'families': fams,
         'tags': tg}
    for x in tg:
        k['t:' + x] = True
    if extra:
        k.update(extra)
    return k


def excl_matches(e, cls, tg, dim, has_hist):
    if e.get('cls') not in (None, cls):
        return False
    if 'dim' in e and e['dim'] != dim:
        return False
    if 'has_history' in e and e['has_history'] != has_hist:
        return False
    return all(x in tg for x in e.get('tags', []))


def excl_label(e):
    s = '+'.join(e.get('tags', [])) or '*'
    if 'dim' in e:
        s += '@dim%d' % e['dim']
    if 'has_history' in e:
        s += '@hist' if e['has_history'] else '@nohist'
    if e.get('id'):
        s = 'known:%s:%s' % (e['id'], s)
    return s


def excl_from_known(entry):
    """known_findings.json 'open' entry -> exclusion (or None)."""
    m = entry.get('match', {})
    cls = m.get('class', m.get('component'))
    if cls not in CLASSES.values():
        return None
    tg = sorted(k[2:] for k, v in m.items() if k.startswith('t:') and
                v is True)
    e = {'cls': cls, 'tags': tg, 'id': entry.get('id', '?')}
    if isinstance(m.get('dim'), int):
        e['dim'] = m['dim']
    if isinstance(m.get('has_history'), bool):
        e['has_history'] = m['has_history']
    return e


# --------------------------------------------------------------------------
# generator: abstract draws -> repair against exclusions -> explicit case
# --------------------------------------------------------------------------
def _u(i, g, s):
    return (((i + 1) * g + s) % M) / float(M)


def _subset(n, k, g, s):
    """k distinct indices < n."""
    k = max(0, min(k, n))
    seen = []
    got = set()
    j = 0
    while len(seen) < k:
        i = ((j + 1) * g + s) % M % n
        while i in got:
            i = (i + 1) % n
        got.add(i)
        seen.append(i)
        j += 1
    return seen


def fine_cap(cls, dim):
    """Largest number of finest cells per axis the class can represent
    within the harness memory budget."""
    if cls == 'StratifiedSFCNNPS':
        # its keys use `1 << (1 + 3*ceil(log2(extent/(rs*hmin))))` in 32-bit
        # arithmetic: at most 512 finest cells per axis are representable
        # (513 cells: wrong neighbour lists or a crash, measured)
        return {1: 480.0, 2: 480.0, 3: 100.0}[dim]
    if cls in DENSE:
        return {1: 4096.0, 2: 1400.0, 3: 100.0}[dim]
    return 1e9


def subdiv(cls, knobs):
    if cls in ('ExtendedZOrderNNPS', 'ExtendedSpatialHashNNPS'):
        return float(knobs.get('H', 3))
    if cls == 'StratifiedHashNNPS':
        return float(knobs.get('H', 1))
    return 1.0


def extent_ok(cls, knobs, dim, E, c0, rs, hmax_lb, hmin_lb, pad=0.0):
    """E: box size per axis in units of c0 (pad: thickness of the periodic
    ghost layers, same unit).  Conservative capacity test."""
    emax = max(E[:dim]) + pad
    coarse = emax * c0 / (rs * hmax_lb) * 1.03 + 2
    if coarse > 50.0:
        return False
    if cls == 'StratifiedSFCNNPS':
        fine = emax * c0 / (rs * hmin_lb) * 1.03 + 2
    else:
        fine = coarse * subdiv(cls, knobs)
    return fine <= fine_cap(cls, dim)


def cost_ok(knobs, hmax_ub, hmin_lb, nq=1.0):
    """StratifiedHashNNPS scans (2*ceil(H*h_dst/h_level)+1)^3 boxes per
    query; keep boxes*queries of a case below about 5*10^7 (nq = estimated
    number of queries) and the ratio below 24 in any case."""
    lim = min(24.0, ((5e7 / max(nq, 1.0)) ** (1.0 / 3.0) - 1.0) / 2.0)
    return knobs.get('H', 1) * hmax_ub / hmin_lb <= max(lim, 1.0)


@st.composite
def abstract_strategy(draw, cls, big):
    i16 = st.integers(1, M - 1)
    sp = {'cls': cls}
    sp['dim'] = draw(st.sampled_from([3, 2, 1]))
    sp['rs'] = draw(st.one_of(st.sampled_from([2.0, 1.0, 0.7, 3.0]),
                              st.floats(0.5, 4.0)))
    sp['h0'] = draw(st.sampled_from([1.0, 0.1, 0.013, 7.5]))
    sp['hmode'] = draw(st.sampled_from(['const', 'per_array', 'log']))
    sp['decades'] = draw(st.one_of(st.sampled_from([1.0, 2.0, 3.0]),
                                   st.floats(0.05, 3.0)))
    sp['offset'] = draw(st.sampled_from(OFFSETS))
    sp['E'] = [draw(st.sampled_from([2, 1, 3, 4, 6, 10, 20, 47]))
               for _ in range(3)]
    sizes = [2, 3, 5, 8, 13, 21, 34, 55, 64]
    if big:
        sizes += [100, 200, 400]
    narr = draw(st.sampled_from([1, 2, 1, 2, 3, 4]))
    arrs = []
    for a in range(narr):
        arrs.append({
            'fam': draw(st.sampled_from(FAMILIES)),
            'n': draw(st.sampled_from(sizes)),
            'g': [draw(i16) for _ in range(3)],
            's': [draw(i16) for _ in range(3)],
            'gh': draw(i16), 'sh': draw(i16),
            'fa': draw(st.sampled_from([1.0, 0.5, 1.5, 2.0, 0.1, 10.0])),
            'frac': draw(st.sampled_from([1.0, 0.5, 0.25])),
            'origin': draw(st.sampled_from(['own', 'grid'])),
            'axis': draw(st.integers(0, 3)),
        })
    sp['arrays'] = arrs
    sp['knobs'] = {k: draw(st.sampled_from(v))
                   for k, v in sorted(KNOBS[cls].items())}
    if cls == 'StratifiedSFCNNPS' and draw(st.integers(0, 19)) == 19:
        sp['knobs']['asymmetric'] = draw(st.booleans())
    sp['sort_gids'] = draw(st.booleans())
    sp['gids'] = draw(st.booleans())
    sp['cache'] = draw(st.booleans())
    sp['threads'] = draw(st.sampled_from(THREADS))
    sp['pair_order'] = draw(st.sampled_from([0, 1, 2]))
    nsteps = draw(st.integers(0, 10 if big else 4))
    steps = []
    for _ in range(nsteps):
        steps.append({
            'op': draw(st.sampled_from(['jitter', 'teleport', 'face',
                                        'scaleh', 'add', 'remove', 'empty',
                                        'refill', 'noop', 'usecache'])),
            'arr': draw(st.integers(0, narr - 1)),
            'k': draw(st.sampled_from([1, 2, 3, 5, 8, 1000])),
            'g': [draw(i16) for _ in range(3)],
            's': [draw(i16) for _ in range(3)],
            'f': draw(st.sampled_from([2.0, 0.5, 1.5, 3.0, 0.1, 10.0])),
            'fam': draw(st.sampled_from(['uniform', 'cluster', 'lattice'])),
            'nodomain': draw(st.sampled_from([False, False, True])),
        })
    sp['steps'] = steps
    sp['styles'] = [draw(st.sampled_from(OLD_STYLES))
                    for _ in range(nsteps + 1)]
    # ---- coverage audit: further ways of asking and further environments
    sp['api'] = draw(st.sampled_from([False, False, True]))
    sp['styles_api'] = [draw(st.sampled_from(NEW_STYLES))
                        for _ in range(nsteps + 1)]
    sp['pair_mod'] = [draw(st.sampled_from([0, 0, 1, 2, 3]))
                      for _ in range(nsteps + 1)]
    sp['qorder'] = draw(st.sampled_from([0, 1]))
    sp['shared_nb'] = draw(st.booleans())
    sp['env'] = draw(st.sampled_from(['none'] * 14 + ENVS))
    sp['env_forced'] = draw(st.sampled_from(ENVS))
    sp['oopv'] = [draw(st.sampled_from(OOP[1:])) for _ in range(2)]
    sp['per'] = draw(st.integers(1, 7))
    sp['n_layers'] = draw(st.sampled_from([2.0, 1.0, 3.0, 1.5]))
    sp['boost'] = draw(st.sampled_from([1, 1, 1, 1, 4]))
    # thorough tier: now and then one array of 1500 particles on its own
    # (deep trees, many nodes per level for the parallel builders, long
    # collision chains)
    sp['bign'] = draw(st.sampled_from([0] * 19 + [1500])) if big else 0
    if cls == 'LinkedListNNPS' and draw(st.integers(0, 39)) == 39:
        sp['huge'] = True
    return sp


def _points(fam, n, i0, g, s, lo, size, dim, c, hmin, frac, axis, origin,
            hi=None):
    """n points of a family inside the box; returns [[x],[y],[z]]."""
    if hi is None:
        hi = [lo[a] + size[a] for a in range(3)]
    P = [[0.0] * n for _ in range(3)]
    for a in range(3):
        for i in range(n):
            P[a][i] = lo[a]
    if n == 0:
        return P
    act = list(range(dim))
    if fam in ('uniform', 'single'):
        for a in act:
            for i in range(n):
                P[a][i] = lo[a] + _u(i0 + i, g[a], s[a]) * size[a]
    elif fam == 'coincident':
        for a in act:
            v = lo[a] + _u(i0, g[a], s[a]) * size[a]
            for i in range(n):
                P[a][i] = v
    elif fam == 'cluster':
        sig = 0.01 * hmin
        for a in act:
            cen = lo[a] + _u(i0, g[a], s[a]) * size[a]
            for i in range(n):
                P[a][i] = cen + (_u(i0 + i + 977, g[a], s[a]) - 0.5) * 2 * sig
    elif fam == 'lattice':
        cf = c * frac
        for a in act:
            o = origin[a]
            K = max(1, int(math.floor((hi[a] - o) / cf)))
            for i in range(n):
                k = int(_u(i0 + i, g[a], s[a]) * (K + 1))
                P[a][i] = o + k * cf
    elif fam == 'collinear':
        ax = axis % (dim + 1)
        if ax < dim:        # axis aligned
            for a in act:
                v = lo[a] + _u(i0, g[a], s[a]) * size[a]
                for i in range(n):
                    P[a][i] = v
            for i in range(n):
                P[ax][i] = lo[ax] + _u(i0 + i, g[ax], s[ax]) * size[ax]
        else:               # diagonal
            for i in range(n):
                t = _u(i0 + i, g[0], s[0])
                for a in act:
                    P[a][i] = lo[a] + t * size[a]
    elif fam == 'coplanar':
        ax = axis % dim
        for a in act:
            for i in range(n):
                P[a][i] = lo[a] + _u(i0 + i, g[a], s[a]) * size[a]
        v = lo[ax] + _u(i0, g[ax], s[ax]) * size[ax]
        for i in range(n):
            P[ax][i] = v
    return P


def _hvals(sp, a, n, i0):
    h0 = sp['h0']
    if sp['hmode'] == 'const':
        return [h0] * n
    if sp['hmode'] == 'per_array':
        return [h0 * a['fa']] * n
    return [h0 * 10.0 ** (-sp['decades'] * _u(i0 + i, a['gh'], a['sh']))
            for i in range(n)]


def materialize(sp):
    """abstract draws -> explicit case (pure function)."""
    cls, dim, rs = sp['cls'], sp['dim'], sp['rs']
    knobs = dict(sp['knobs'])
    notes = []
    # ---- environment of the case (coverage audit)
    env = sp.get('env', 'none')
    if sp.get('env_force'):
        env = sp.get('env_forced', env)
    env = set(env.split('+'))
    if sp.get('dense'):
        # stencil shard: every array well filled, constant h, a box of a
        # few cells per axis, so that every cell of the search stencil
        # (corners included) holds true neighbours of some particle
        sp = dict(sp, hmode='const', boost=1, bign=0, huge=False,
                  E=[min(max(e, 2), 4) for e in sp['E']],
                  arrays=[dict(a, n=max(a['n'], 55),
                               fam=(a['fam'] if a['fam'] in (
                                   'uniform', 'lattice') else 'uniform'))
                          for a in sp['arrays']])
        env = set()
        notes.append('dense_stencil')
    if sp.get('huge'):
        env = set()
    if 'long' in env and (cls not in LONG_OK or (
            dim == 3 and cls == 'LinkedListNNPS')):
        # (3000^3 cells are more than the 2^28 the linked list documents;
        # that rejection is the `huge` case)
        env.discard('long')
        env.add('oop' if dim < 3 else 'periodic')
    if 'oop' in env and dim == 3:
        env.discard('oop')
        env.add('tiny')
    if 'long' in env:
        env.discard('periodic')
    if 'tiny' in env and cls in ('StratifiedSFCNNPS', 'StratifiedHashNNPS'):
        # the cell-size fall-back (1.0, meant for inputs without particles)
        # applies when rs*hmax < 1e-6; the stratified classes derive their
        # levels from h: for StratifiedSFC extent/(rs*hmin) then exceeds the
        # 512 finest cells per axis it can represent, for StratifiedHash the
        # level cells and the grid disagree (ASSUMPTIONS)
        env.discard('tiny')
        env.add('periodic' if dim == 3 else 'oop')
        notes.append('excluded:tiny_h_stratsfc_capacity'
                     if cls == 'StratifiedSFCNNPS' else
                     'excluded:tiny_h_strathash_levels')
    env -= set(sp.get('env_off', []))
    periodic = 'periodic' in env
    bign = int(sp.get('bign') or 0)
    if bign and not periodic and not sp.get('huge'):
        a0 = dict(sp['arrays'][0], n=bign)
        if a0['fam'] in ('empty', 'single'):
            a0['fam'] = 'uniform'
        sp = dict(sp, arrays=[a0], steps=sp['steps'][:2], boost=1)
        notes.append('big_array')
    fams = []
    for a in sp['arrays']:
        f = a['fam']
        if f == 'collinear' and dim < 2:
            f = 'uniform'
        if f == 'coplanar' and dim < 3:
            f = 'collinear' if dim == 2 else 'uniform'
        fams.append(f)
    ns = []
    for a, f in zip(sp['arrays'], fams):
        n = 0 if f == 'empty' else 1 if f == 'single' else a['n']
        if f in ('cluster', 'coincident') and sp.get('boost', 1) > 1 and \
                not periodic:
            n *= sp['boost']
            notes.append('boosted')
        if periodic:
            # every particle may get 3^dim - 1 ghost copies
            n = min(n, {1: 34, 2: 34, 3: 13}[dim])
        ns.append(n)
    if knobs.get('fixed_h'):
        # 'constant smoothing lengths' is what fixed_h is documented for
        sp = dict(sp, hmode='const')
    if 'tiny' in env:
        sp = dict(sp, h0=1e-8)
    hs = [_hvals(sp, a, n, 0) for a, n in zip(sp['arrays'], ns)]
    allh = [v for h in hs for v in h]
    nq = float(sum(ns) + 16 * len(sp['steps'])) * len(ns) * 2 * \
        (len(sp['steps']) + 1) * (3.0 ** dim if periodic else 1.0)
    if cls == 'StratifiedHashNNPS' and allh and not cost_ok(
            knobs, max(allh), min(allh), nq):
        # bounded query cost for this class (see ASSUMPTIONS)
        sp = dict(sp, hmode='const')
        hs = [_hvals(sp, a, n, 0) for a, n in zip(sp['arrays'], ns)]
        allh = [v for h in hs for v in h]
        notes.append('h_ratio_bounded')
    hmax = max(allh) if allh else sp['h0']
    hmin = min(allh) if allh else sp['h0']
    c0 = rs * hmax
    E = [float(e) for e in sp['E']]
    n_layers = float(sp.get('n_layers', 2.0))

    def pad_of(hmax_ub):
        return 2.0 * n_layers * rs * hmax_ub / c0 if periodic else 0.0

    if sp.get('huge'):
        E = [3000.0, 3000.0, 3000.0]
        notes.append('huge')
    elif 'long' in env:
        E = [70000.0 + E[0], min(E[1], 3.0), 1.0] if dim < 3 else \
            [3000.0 + E[0], 3000.0, 3000.0]
    else:
        while not extent_ok(cls, knobs, dim, E, c0, rs, hmax, hmin,
                            pad_of(hmax)) and max(E[:dim]) > 1e-3:
            E = [e * 0.5 for e in E]
    unbounded = bool(sp.get('huge')) or 'long' in env
    lo = [sp['offset'] if a < dim else 0.0 for a in range(3)]
    if 'oop' in env:
        for a in range(dim, 3):
            lo[a] = sp['oopv'][a - 1]
    size = [E[a] * c0 if a < dim else 0.0 for a in range(3)]
    # non-lattice arrays first: they define the predicted grid origin
    pts = [None] * len(ns)
    for j, (a, f, n) in enumerate(zip(sp['arrays'], fams, ns)):
        if f != 'lattice':
            pts[j] = _points(f, n, 0, a['g'], a['s'], lo, size, dim, c0,
                             min(hs[j]) if hs[j] else hmin, a['frac'],
                             a['axis'], lo)
    onface = False
    for j, (a, f, n) in enumerate(zip(sp['arrays'], fams, ns)):
        if f != 'lattice':
            continue
        origin = list(lo)
        hi = [lo[k] + size[k] for k in range(3)]
        if a['origin'] == 'grid':
            cf = c0 * a['frac']
            for ax in range(dim):
                vals = [v for p in pts if p is not None for v in p[ax]]
                if cls == 'DictBoxSortNNPS':
                    origin[ax] = math.ceil(lo[ax] / cf) * cf
                    onface = True
                elif vals and max(vals) - min(vals) > 2 * cf:
                    mn, mx = min(vals), max(vals)
                    o = mn - (mx - mn) * 0.01
                    # first face strictly inside the bounding box
                    origin[ax] = o + cf
                    hi[ax] = mx
                    onface = True
        pts[j] = _points(f, n, 0, a['g'], a['s'], lo, size, dim, c0, hmin,
                         a['frac'], a['axis'], origin, hi)
    if onface:
        notes.append('on_face_grid')
    arrays = []
    for j, f in enumerate(fams):
        arrays.append({'fam': f, 'x': pts[j][0], 'y': pts[j][1],
                       'z': pts[j][2], 'h': hs[j]})
    # ---------------------------------------------------------- history
    # per array: number of particles, lower/upper bound of its largest h,
    # lower bound of its smallest h (which particle holds which h after a
    # removal is implementation defined, hence bounds)
    bnd = [{'n': n, 'mxl': max(h) if h else 0.0, 'mxu': max(h) if h else 0.0,
            'mnl': min(h) if h else 0.0} for n, h in zip(ns, hs)]

    drift = [0.0]      # relative moves accumulate: widen the box

    def fits(bs):
        if unbounded:
            return True
        act = [b for b in bs if b['n'] > 0]
        if not act:
            return True
        Ed = [e + drift[0] for e in E]
        if cls == 'StratifiedHashNNPS' and not cost_ok(
                knobs, max(b['mxu'] for b in act),
                min(b['mnl'] for b in act), nq):
            return False
        return extent_ok(cls, knobs, dim, Ed, c0, rs,
                         max(b['mxl'] for b in act),
                         min(b['mnl'] for b in act),
                         pad_of(max(b['mxu'] for b in act)))

    cache = bool(sp['cache'])
    cache_now = cache and cls != 'DictBoxSortNNPS'
    switched = False
    h_changes = sp['hmode'] != 'const'   # scaleh steps are added below
    dom_has = [sum(ns) > 0]   # particles present at the last domain update
    steps = []
    for q, st_ in enumerate(sp['steps']):
        j = st_['arr'] % len(arrays)
        a = sp['arrays'][j]
        n = bnd[j]['n']
        op = st_['op']
        g, s = st_['g'], st_['s']
        i0 = 1000 * (q + 1)
        if op == 'usecache':
            if cls == 'DictBoxSortNNPS':
                op = 'noop'       # documented: this class cannot cache
            else:
                cache_now = not cache_now
                switched = True
                steps.append({'op': 'usecache', 'arr': j, 'on': cache_now})
                continue
        if op == 'noop':
            steps.append({'op': 'noop', 'arr': j})
            dom_has[0] = sum(b['n'] for b in bnd) > 0
            continue
        if op == 'scaleh' and knobs.get('fixed_h'):
            op = 'jitter'
        if op in ('jitter', 'teleport', 'face', 'scaleh', 'remove') and \
                n == 0:
            op = 'refill'
        if op == 'refill' and n > 0:
            op = 'add'
        if op == 'remove' and n < 2:
            op = 'jitter'
        nb = [dict(b) for b in bnd]
        step = None
        if op == 'scaleh':
            f = st_['f']
            nb[j]['mxl'] *= min(1.0, f)
            nb[j]['mnl'] *= min(1.0, f)
            nb[j]['mxu'] *= max(1.0, f)
            idx = _subset(n, st_['k'], g[0], s[0])
            step = {'op': 'scaleh', 'arr': j, 'idx': idx, 'f': f}
            if f > 1.0 and f * hmin >= hmax:
                notes.append('new_hmax')
        elif op in ('add', 'refill'):
            k = min(st_['k'], 8 if op == 'add' else 16)
            p = _points(st_['fam'], k, i0, g, s, lo, size, dim, c0, hmin,
                        a['frac'], 0, lo)
            h = _hvals(sp, a, k, i0)
            step = {'op': 'add', 'arr': j, 'x': p[0], 'y': p[1],
                    'z': p[2], 'h': h, 'kind': op}
            if n == 0:
                nb[j] = {'n': k, 'mxl': max(h), 'mxu': max(h),
                         'mnl': min(h)}
            else:
                nb[j]['n'] = n + k
                nb[j]['mxu'] = max(nb[j]['mxu'], max(h))
                nb[j]['mnl'] = min(nb[j]['mnl'], min(h))
        elif op == 'remove':
            k = min(st_['k'], n - 1)
            idx = _subset(n, k, g[0], s[0])
            step = {'op': 'remove', 'arr': j, 'idx': idx}
            nb[j]['n'] = n - k
            nb[j]['mxl'] = nb[j]['mnl']
        elif op == 'empty':
            step = {'op': 'empty', 'arr': j}
            nb[j]['n'] = 0
        if step is not None and not fits(nb):
            # the step would make the grid exceed the bounded capacity
            step = None
            notes.append('step_replaced')
            op = 'jitter' if n > 0 else 'none'
        elif step is not None:
            bnd = nb
        if step is None and op == 'jitter':
            drift[0] += 0.4
            if not fits(bnd):
                drift[0] -= 0.4
                op = 'teleport'
        if step is None and op == 'jitter':
            idx = _subset(n, st_['k'], g[0], s[0])
            d = [[((_u(i0 + i, g[k], s[k]) - 0.5) * 0.4 * c0 if k < dim
                   else 0.0) for i in range(len(idx))] for k in range(3)]
            step = {'op': 'move', 'arr': j, 'idx': idx, 'x': d[0],
                    'y': d[1], 'z': d[2], 'rel': True, 'kind': op}
        elif step is None and op in ('teleport', 'face'):
            idx = _subset(n, st_['k'], g[0], s[0])
            fam = 'uniform' if op == 'teleport' else 'lattice'
            p = _points(fam, len(idx), i0, g, s, lo, size, dim, c0, hmin,
                        a['frac'], 0, lo)
            step = {'op': 'move', 'arr': j, 'idx': idx, 'x': p[0],
                    'y': p[1], 'z': p[2], 'rel': False, 'kind': op}
        if step is not None:
            if step['op'] == 'scaleh':
                h_changes = True
            # NNPS.update(): 'should be called when the particles have
            # moved'; the cell size and hmin are the domain manager's, so
            # update() alone is generated only while every h equals the
            # one value the manager has seen (and never with ghosts)
            if st_.get('nodomain') and not periodic and not h_changes and \
                    dom_has[0] and \
                    step['op'] in ('move', 'add', 'remove', 'empty'):
                step['nodomain'] = True
            else:
                dom_has[0] = sum(b['n'] for b in bnd) > 0
            steps.append(step)
    nph = len(steps) + 1
    api = bool(sp.get('api'))
    src = sp['styles_api'] if api and sp.get('styles_api') else sp['styles']
    styles = [list(x) for x in src][:nph]
    if not cache and not switched:
        conv = {'all': 'ctx', 'raw': 'ctx', 'hall': 'gnp'}
        styles = [[conv.get(y, y) for y in x] for x in styles]
    if cls == 'DictBoxSortNNPS':
        styles = [[('ctx' if y == 'ext' else y) for y in x] for x in styles]
    styles = [[y for k, y in enumerate(x) if y not in x[:k]] for x in styles]
    case = {'cls': cls, 'dim': dim, 'rs': rs, 'knobs': knobs,
            'sort_gids': bool(sp['sort_gids']), 'gids': bool(sp['gids']),
            'cache': bool(sp['cache']), 'threads': sp['threads'],
            'pair_order': sp['pair_order'], 'arrays': arrays,
            'steps': steps, 'styles': styles, 'notes': sorted(set(notes))}
    if api and not sp.get('qopts_off'):
        case['pair_mod'] = [int(m) for m in sp.get('pair_mod', [])][:nph]
        case['qorder'] = int(sp.get('qorder', 0))
        case['shared_nb'] = bool(sp.get('shared_nb'))
    if periodic:
        per = [bool(sp['per'] >> k & 1) and k < dim for k in range(3)]
        if not any(per):
            per[0] = True
        case['domain'] = {'per': per, 'n_layers': n_layers, 'lo': lo,
                          'hi': [lo[k] + size[k] for k in range(3)]}
    if 'long' in env:
        case['long'] = True
    relabel(case)
    return case


def repair(sp, tg, e):
    """Change the abstract draws so that the exclusion e no longer matches.
    Returns False when nothing is left to change (class fully excluded)."""
    want = list(e.get('tags', []))
    if 'has_history' in e and e['has_history'] and sp['steps'] and not want:
        sp['steps'] = []
        sp['styles'] = sp['styles'][:1]
        return True
    order = ['qopts', 'nodomain', 'long', 'periodic', 'tiny_h', 'oop',
             'cache_gnp_first', 'threads_gt1', 'sort_gids', 'cache',
             'far_offset', 'multi_decade', 'empty', 'no_particles',
             'point_extent', 'zero_extent', 'multi_array']
    pick = None
    for x in want:
        if x.startswith('sty:'):
            pick = x
            break
    for x in want:
        if pick is None and x.startswith('op:'):
            pick = x
            break
    if pick is None:
        for x in want:
            if x.startswith('knob:'):
                pick = x
                break
    if pick is None:
        for x in want:
            if x.startswith('fam:'):
                pick = x
                break
    if pick is None:
        for x in order:
            if x in want:
                pick = x
                break
    if pick is None:
        return False
    degenerate = ('coincident', 'single', 'empty', 'collinear', 'coplanar',
                  'cluster', 'lattice')
    if pick.startswith('sty:'):
        y = pick[4:]
        sp['styles_api'] = [[('ctx' if z == y else z) for z in ph]
                            for ph in sp.get('styles_api', [])]
    elif pick == 'qopts':
        sp['qopts_off'] = True
    elif pick == 'nodomain':
        sp['steps'] = [dict(s, nodomain=False) for s in sp['steps']]
    elif pick in ('long', 'periodic', 'tiny_h', 'oop'):
        sp['env_off'] = sorted(set(sp.get('env_off', [])) |
                               set([pick[:4] if pick == 'tiny_h' else pick]))
    elif pick.startswith('op:'):
        op = pick[3:]
        kinds = {'move': ('jitter', 'teleport', 'face'),
                 'add': ('add', 'refill', 'jitter', 'teleport', 'face',
                         'scaleh', 'remove'),
                 'scaleh': ('scaleh',), 'remove': ('remove',),
                 'empty': ('empty',), 'noop': ('noop', 'usecache'),
                 'usecache': ('usecache',)}[op]
        if op in ('move', 'add'):
            # these arise from fall-backs too: drop the history
            sp['steps'] = []
        else:
            sp['steps'] = [s for s in sp['steps'] if s['op'] not in kinds]
        sp['styles'] = sp['styles'][:len(sp['steps']) + 1]
    elif pick.startswith('knob:'):
        k = pick[5:].split('=')[0]
        if k in KNOBS[sp['cls']]:
            sp['knobs'][k] = KNOBS[sp['cls']][k][0]
        else:
            sp['knobs'].pop(k, None)
    elif pick.startswith('fam:'):
        f = pick[4:]
        for a in sp['arrays']:
            if a['fam'] == f or (f in ('collinear',) and
                                 a['fam'] == 'coplanar'):
                a['fam'] = 'uniform'
        if f in ('single', 'coincident', 'empty'):
            # these also arise dynamically from the data
            for a in sp['arrays']:
                if a['fam'] in ('cluster', 'lattice', 'collinear',
                                'coplanar') or a['n'] < 3:
                    a['fam'] = 'uniform'
                    a['n'] = max(a['n'], 3)
    elif pick == 'cache_gnp_first':
        sp['styles'][0] = ['ctx'] + [y for y in sp['styles'][0]
                                     if y != 'ctx']
    elif pick == 'threads_gt1':
        sp['threads'] = 1
    elif pick == 'sort_gids':
        sp['sort_gids'] = False
    elif pick == 'cache':
        sp['cache'] = False
    elif pick == 'far_offset':
        sp['offset'] = 0.0
    elif pick == 'multi_decade':
        sp['hmode'] = 'const'
    elif pick == 'empty':
        for a in sp['arrays']:
            if a['fam'] == 'empty':
                a['fam'] = 'uniform'
        sp['steps'] = [s for s in sp['steps'] if s['op'] != 'empty']
        sp['styles'] = sp['styles'][:len(sp['steps']) + 1]
    elif pick == 'no_particles':
        sp['arrays'][0]['fam'] = 'uniform'
    elif pick in ('point_extent', 'zero_extent'):
        for a in sp['arrays']:
            if a['fam'] in degenerate:
                a['fam'] = 'uniform'
            a['n'] = max(a['n'], 3)
        for a in sp['arrays']:
            if len(set(a['g'])) < 3:
                a['g'] = [a['g'][0], a['g'][0] % (M - 2) + 1,
                          (a['g'][0] * 7) % (M - 1) + 1]
    elif pick == 'multi_array':
        sp['arrays'] = sp['arrays'][:1]
        sp['steps'] = [dict(s, arr=0) for s in sp['steps']]
    return True


def build_case(sp, excl):
    """Materialise, repairing against the exclusion list by construction."""
    hit = []
    for _ in range(24):
        case = materialize(sp)
        tg = tags_of(case)
        bad = [e for e in excl if excl_matches(e, case['cls'], tg,
                                               case['dim'],
                                               bool(case['steps']))]
        if not bad:
            break
        lab = excl_label(bad[0])
        if lab not in hit:
            hit.append(lab)
        if not repair(sp, tg, bad[0]):
            case['_dead'] = True
            break
    else:
        case['_dead'] = True
    case['_excluded'] = hit
    case['_klass'] = klass_of(case)
    return case


def apply_pin(sp, pin):
    """Fix some drawn choices of an abstract case (stratified shards: the
    combinations in which an algorithm takes a different code path get their
    own budget instead of a few per cent of the general one)."""
    for k, v in (pin or {}).items():
        if k.startswith('knob:'):
            if k[5:] in sp['knobs']:
                sp['knobs'][k[5:]] = v
        else:
            sp[k] = v
    return sp


def case_strategy(cls, big, excl, pin=None):
    return abstract_strategy(cls, big).map(
        lambda sp: build_case(apply_pin(sp, pin), excl))


# --------------------------------------------------------------------------
# executing one explicit case
# --------------------------------------------------------------------------
def _gid(k):
    return (k * 7919 + 13) % 100003


def _true_cells(case):
    """Upper estimate of the number of cells of the initial grid."""
    import numpy as np
    hs = [v for a in case['arrays'] for v in a['h']]
    if not hs:
        return 1.0
    c = case['rs'] * max(hs)
    if c < 1e-6:
        c = 1.0
    tot = 1.0
    for k in 'xyz'[:case['dim']]:
        v = [x for a in case['arrays'] for x in a[k]]
        tot *= (max(v) - min(v)) * 1.02 / c + 2
    return tot


class _Bail(Exception):
    pass


def check(case):
    """-> (failures, labels, nontrivial)."""
    import numpy as np
    from pysph.base.utils import get_particle_array
    from pysph.base import nnps as N
    from pysph.base.nnps_base import set_number_of_threads
    from cyarray.api import UIntArray
    case = relabel(case)
    cls, dim, rs = case['cls'], case['dim'], float(case['rs'])
    K = getattr(N, cls)
    steps = case.get('steps', [])
    styles = case.get('styles') or [['ctx']]
    while len(styles) < len(steps) + 1:
        styles.append(['ctx'])
    knobs = dict(case.get('knobs', {}))
    sort_gids = bool(case.get('sort_gids'))
    gids = bool(case.get('gids'))
    cache = bool(case.get('cache'))
    eff_cache = cache and cls != 'DictBoxSortNNPS'
    threads = int(case.get('threads', 1))
    base_klass = klass_of(case)
    labels = set([cls, 'dim%d' % dim])
    fails = []
    nontriv = {'mid': False, 'cells': False}

    def fail(kind, detail, extra=None, expected=None, observed=None):
        kl = dict(base_klass)
        if extra:
            kl.update(extra)
        fails.append(Failure(cls, kind, detail, kl, expected, observed))
        raise _Bail()

    for a in case['arrays']:
        labels.add('fam:' + a['fam'])
    for k, v in knobs.items():
        labels.add('knob:%s=%s' % (k, v))
    for nt in case.get('notes', []):
        labels.add(nt)
    tg = base_klass['tags']
    if 'empty' in tg:
        labels.add('empty_array')
    if 'fam:lattice' in tg:
        labels.add('on_face_lattice')
    if 'far_offset' in tg:
        labels.add('far_offset')
    if 'multi_decade' in tg:
        labels.add('multi_decade_h')
    if steps:
        labels.add('history')
    for tname, lab in (('oop', 'oop_const'), ('periodic', 'periodic_domain'),
                       ('tiny_h', 'tiny_h'), ('long', 'long_domain')):
        if tname in tg:
            labels.add(lab)
    dom = case.get('domain')
    pair_mod = list(case.get('pair_mod') or [])
    qorder = int(case.get('qorder', 0))
    shared_nb = bool(case.get('shared_nb'))
    nnbr0 = {1: 10, 2: 60, 3: 120}[dim]
    if eff_cache and threads > 1:
        labels.add('cache_threads_gt1')
    if sort_gids:
        labels.add('sort_gids')
    if gids:
        labels.add('gids_valid')
    for e in case.get('_excluded', []):
        labels.add('excluded:' + e)

    counters = []

    def make_pas(data):
        pas = []
        for j, d in enumerate(data):
            pa = get_particle_array(
                name='a%d' % j, x=np.array(d['x'], dtype=float),
                y=np.array(d['y'], dtype=float),
                z=np.array(d['z'], dtype=float),
                h=np.array(d['h'], dtype=float))
            if 'gid' in d:
                pa.gid[:] = np.array(d['gid'], dtype=np.uint32)
            pas.append(pa)
        return pas

    def construct(pas, use_cache, with_domain=True):
        set_number_of_threads(threads)
        kw = dict(knobs)
        if dom and with_domain:
            kw['domain'] = N.DomainManager(
                xmin=dom['lo'][0], xmax=dom['hi'][0], ymin=dom['lo'][1],
                ymax=dom['hi'][1], zmin=dom['lo'][2], zmax=dom['hi'][2],
                periodic_in_x=bool(dom['per'][0]),
                periodic_in_y=bool(dom['per'][1]),
                periodic_in_z=bool(dom['per'][2]),
                n_layers=float(dom.get('n_layers', 2.0)))
        return K(dim=dim, particles=pas, radius_scale=rs, cache=use_cache,
                 sort_gids=sort_gids, **kw)

    def snapshot(pas):
        out = []
        for pa in pas:
            # all particles: periodic ghosts (not 'real') are sources and
            # destinations like any other particle
            out.append(dict((k, pa.get(k, only_real_particles=False).copy())
                            for k in ('x', 'y', 'z', 'h', 'gid')))
        return out

    def oracle(S, d, s):
        D, Sr = S[d], S[s]
        dx = D['x'][:, None] - Sr['x'][None, :]
        dy = D['y'][:, None] - Sr['y'][None, :]
        dz = D['z'][:, None] - Sr['z'][None, :]
        d2 = dx * dx + dy * dy + dz * dz
        c = rs * np.maximum(D['h'][:, None], Sr['h'][None, :])
        c2 = c * c
        req = d2 < c2 * (1 - 8 * EPS)
        alw = ~(d2 > c2 * (1 + 8 * EPS))
        return req, alw, d2, c2

    def verify(got, i, d, s, req, alw, S, how, phase, d2, c2, srt=True):
        ns = len(S[s]['x'])
        ex = {'phase': 'initial' if phase == 0 else 'post_update'}
        where = 'phase %d %s dst=a%d[%d] src=a%d' % (phase, how, d, i, s)
        if got.size and int(got.max()) >= ns:
            fail('bad_index', '%s: index %d >= n_src %d' % (
                where, int(got.max()), ns), ex, observed=got.tolist())
        if np.unique(got).size != got.size:
            fail('duplicate', '%s: duplicates in %s' % (where, got.tolist()),
                 ex, observed=got.tolist())
        if got.size and not alw[i, got].all():
            j = int(got[~alw[i, got]][0])
            fail('extra_neighbor', '%s: returned %d with d2=%.17g > c2=%.17g'
                 % (where, j, d2[i, j], c2[i, j]), ex,
                 expected=np.nonzero(req[i])[0].tolist(),
                 observed=got.tolist())
        nreq = int(req[i].sum())
        if nreq != int(req[i, got].sum()):
            miss = sorted(set(np.nonzero(req[i])[0].tolist()) -
                          set(got.tolist()))
            j = miss[0]
            fail('missing_neighbor', '%s: %d missing (first %d, d2=%.17g < '
                 'c2=%.17g), returned %d' % (where, len(miss), j, d2[i, j],
                                             c2[i, j], got.size), ex,
                 expected=np.nonzero(req[i])[0].tolist(),
                 observed=got.tolist())
        if sort_gids and srt and got.size > 1:
            g = S[s]['gid'][got].astype(np.int64)
            key = g if gids else got.astype(np.int64)
            # periodic ghosts carry the gid of their original: ties
            df = np.diff(key)
            if not ((df >= 0) if (dom and gids) else (df > 0)).all():
                fail('unsorted', '%s: sort_gids=True but order is %s (gids '
                     '%s)' % (where, got.tolist(), g.tolist()), ex)
        if 0 < nreq < ns:
            nontriv['mid'] = True

    def matrix(res, nd, ns):
        G = np.zeros((nd, ns), dtype=bool)
        lens = np.fromiter((r.size for r in res), dtype=np.int64, count=nd)
        if int(lens.sum()):
            cat = np.concatenate(res).astype(np.int64)
            G[np.repeat(np.arange(nd), lens), np.minimum(cat, ns - 1)] = True
        return G

    def verify_pair(res, d, s, req, alw, S, how, phase, d2, c2, srt=True):
        """All queries of one (dst, src) pair at once; the per-query
        routine is used only to describe a failure."""
        nd, ns = req.shape
        lens = np.fromiter((r.size for r in res), dtype=np.int64, count=nd)
        tot = int(lens.sum())
        ok = True
        if tot:
            cat = np.concatenate(res).astype(np.int64)
            rows = np.repeat(np.arange(nd), lens)
            if int(cat.max()) >= ns:
                ok = False
            else:
                G = np.zeros((nd, ns), dtype=bool)
                G[rows, cat] = True
                if int(G.sum()) != tot or (G & ~alw).any() or \
                        (req & ~G).any():
                    ok = False
                elif sort_gids and srt and tot > 1:
                    key = S[s]['gid'][cat].astype(np.int64) if gids else cat
                    same = rows[1:] == rows[:-1]
                    df = np.diff(key)[same]
                    if ((df < 0) if (dom and gids) else (df <= 0)).any():
                        ok = False
        elif req.any():
            ok = False
        if not ok:
            for i in range(nd):
                verify(res[i], i, d, s, req, alw, S, how, phase, d2, c2, srt)
            raise AssertionError('bulk and per-query verdicts differ')
        nreq = req.sum(axis=1)
        if ((nreq > 0) & (nreq < ns)).any():
            nontriv['mid'] = True

    def same_sets(a, b, nd, ns):
        """index of the first query whose two answers differ as sets"""
        A, B = matrix(a, nd, ns), matrix(b, nd, ns)
        bad = np.nonzero((A != B).any(axis=1))[0]
        return int(bad[0]) if bad.size else None

    def pair_list(na):
        pr = [(d, s) for d in range(na) for s in range(na)]
        po = case.get('pair_order', 0)
        if po == 1:
            pr.reverse()
        elif po == 2:
            pr = [(d, s) for s in range(na) for d in range(na)]
        return pr

    def run_styles(sty, use_cache):
        """Styles that need the cache fall back when it is off."""
        if not use_cache:
            conv = {'all': 'ctx', 'raw': 'ctx', 'hall': 'gnp'}
            sty = [conv.get(y, y) for y in sty]
        if cls == 'DictBoxSortNNPS':
            sty = [('ctx' if y == 'ext' else y) for y in sty]
        return [y for k, y in enumerate(sty) if y not in sty[:k]] or ['ctx']

    def q_order(nd):
        if not qorder:
            return range(nd)
        return list(range(nd - 1 - (nd % 2 == 1), 0, -2)) + \
            list(range(0, nd, 2))

    def query_all(nps, pas, S, phase, sty, orc, nb, use_cache):
        """Run the styles; returns {(d,s): [arrays]} of the last style."""
        na = len(pas)
        last = {}
        pm = pair_mod[phase] if phase < len(pair_mod) else 0
        if pm:
            labels.add('pairs_skipped')
        if qorder:
            labels.add('query_permuted')
        for how in sty:
            labels.add('style:' + how)
            for pi, (d, s) in enumerate(pair_list(na)):
                if pm and pi % 3 == pm - 1 and na > 1:
                    continue
                nd = len(S[d]['x'])
                ns_ = len(S[s]['x'])
                req, alw, d2, c2 = orc[(d, s)]
                gnp = nps.get_nearest_particles
                out = nb
                if how == 'ctx':
                    nps.set_context(s, d)
                elif how == 'all':
                    nps.set_context(s, d)
                    nps.cache[d * na + s].find_all_neighbors()
                elif how == 'hall':
                    for i in range(0, nd, 2):
                        gnp(s, d, i, nb)
                        verify(nb.get_npy_array()[:nb.length].copy(), i, d,
                               s, req, alw, S, how, phase, d2, c2)
                    nps.cache[d * na + s].find_all_neighbors()
                elif how == 'raw':
                    nps.set_context(s, d)
                    cch = nps.cache[d * na + s]

                    def gnp(s_, d_, i_, nb_, _c=cch):
                        _c.get_neighbors(s_, i_, nb_)
                elif how == 'ext':
                    cch = N.NeighborCache(nps, d, s)
                    cch.update()
                    nps.set_context(s, d)

                    def gnp(s_, d_, i_, nb_, _c=cch):
                        _c.get_neighbors(s_, i_, nb_)
                elif how == 'pre':
                    out = UIntArray()
                    out.reserve(ns_ + 8)

                    def gnp(s_, d_, i_, nb_):
                        nps.get_nearest_particles_no_cache(s_, d_, i_, nb_,
                                                           True)
                elif how == 'bf':
                    gnp = nps.brute_force_neighbors
                res = [None] * nd
                arr = out.get_npy_array
                for i in q_order(nd):
                    gnp(s, d, i, out)
                    if how == 'pre':
                        # prealloc: 'the neighbors are directly set in the
                        # given array': data and length are what counts,
                        # the numpy view of the array may be stale
                        res[i] = np.fromiter(
                            (out[q] for q in range(out.length)),
                            dtype=np.uint32, count=out.length)
                    else:
                        res[i] = arr()[:out.length].copy()
                verify_pair(res, d, s, req, alw, S, how, phase, d2, c2,
                            how != 'bf')
                cached = use_cache and how in ('ctx', 'gnp', 'all', 'raw',
                                               'hall')
                if cached and int(req.sum()) > nnbr0 * nd + 1024 * threads:
                    labels.add('cache_growth')
                if cached and shared_nb and nd > 1:
                    # the array is now a view of the cached list of one
                    # particle; an uncached query of another particle
                    # through it must leave the cached lists alone
                    i1 = list(q_order(nd))[-1]
                    i0 = 0 if i1 else 1
                    nps.get_nearest_particles_no_cache(s, d, i0, nb, False)
                    verify(nb.get_npy_array()[:nb.length].copy(), i0, d, s,
                           req, alw, S, how + '+uncached', phase, d2, c2)
                    for i in (i1, i0):
                        nps.get_nearest_particles(s, d, i, nb)
                        verify(nb.get_npy_array()[:nb.length].copy(), i, d,
                               s, req, alw, S, how + '+requery', phase, d2,
                               c2)
                    labels.add('view_then_uncached')
                if how != 'bf':
                    # (a pair at the cut-off may go either way in the
                    # sqrt-based brute force: not part of the set
                    # comparisons between cached/uncached/fresh answers)
                    last[(d, s)] = res
        return last

    def no_cache_all(nps, S, na, nb=None):
        nb = nb if nb is not None else UIntArray()
        out = {}
        for (d, s) in pair_list(na):
            res = []
            for i in range(len(S[d]['x'])):
                nps.get_nearest_particles_no_cache(s, d, i, nb, False)
                res.append(nb.get_npy_array()[:nb.length].copy())
            out[(d, s)] = res
        return out

    def occupied(S):
        allx = [S[j][k] for j in range(len(S)) for k in 'xyz']
        hs = np.concatenate([s_['h'] for s_ in S])
        if hs.size == 0:
            return
        c = rs * hs.max()
        mn = [min([S[j][k].min() for j in range(len(S))
                   if S[j][k].size]) for k in 'xyz']
        sets = []
        for s_ in S:
            if s_['x'].size:
                cells = set(zip(*[np.floor((s_[k] - m) / c).astype(
                    np.int64).tolist() for k, m in zip('xyz', mn)]))
                sets.append(frozenset(cells))
        if len(set(sets)) > 1:
            nontriv['cells'] = True

    try:
        data = []
        for j, a in enumerate(case['arrays']):
            n = len(a['x'])
            d = dict(x=a['x'], y=a['y'], z=a['z'], h=a['h'])
            if gids:
                d['gid'] = [_gid(k) for k in range(n)]
            counters.append(n)
            data.append(d)
        pas = make_pas(data)
        try:
            nps = construct(pas, cache)
        except TypeError as ex:
            if cls == 'StratifiedSFCNNPS' and 'asymmetric' in knobs and \
                    'asymmetric' in str(ex):
                labels.add('rejected_asymmetric_keyword')
                return [], sorted(labels), False
            fail('exception', 'constructor: %r' % ex)
        except RuntimeError as ex:
            msg = str(ex)
            if 'too many cells' in msg or 'cells is negative' in msg:
                if _true_cells(case) > 2.0 ** 27:
                    labels.add('rejected_too_many_cells')
                    return [], sorted(labels), False
                fail('spurious_rejection', 'constructor: %s although the '
                     'particles span about %.3g cells' % (
                         msg, _true_cells(case)))
            fail('exception', 'constructor: %r' % ex)
        except (MemoryError, ValueError, IndexError, OverflowError) as ex:
            fail('exception', 'constructor: %r' % ex)
        na = len(pas)
        cur_cache = eff_cache
        the_nb = UIntArray()
        if shared_nb:
            labels.add('shared_nbr_array')
        for phase in range(len(steps) + 1):
            if phase > 0 and steps[phase - 1]['op'] == 'usecache':
                # documented switch (upstream test_neighbor_cache): the
                # caches are refreshed by the call itself, no update()
                on = bool(steps[phase - 1]['on'])
                labels.add('op:usecache')
                labels.add('cache_switched_on' if on else
                           'cache_switched_off')
                nps.set_use_cache(on)
                cur_cache = on and cls != 'DictBoxSortNNPS'
            elif phase > 0:
                stp = steps[phase - 1]
                pa = pas[stp['arr']]
                op = stp['op']
                labels.add('op:' + op)
                if op == 'add' and cur_cache:
                    labels.add('cache_add')
                if stp.get('kind') == 'refill':
                    labels.add('op:refill')
                if op == 'move':
                    idx = np.array(stp['idx'], dtype=int)
                    for k in 'xyz':
                        arr = getattr(pa, k)
                        v = np.array(stp[k], dtype=float)
                        if idx.size:
                            arr[idx] = arr[idx] + v if stp['rel'] else v
                elif op == 'scaleh':
                    idx = np.array(stp['idx'], dtype=int)
                    if idx.size:
                        pa.h[idx] = pa.h[idx] * stp['f']
                elif op == 'add':
                    k = len(stp['x'])
                    kw = dict(x=np.array(stp['x'], dtype=float),
                              y=np.array(stp['y'], dtype=float),
                              z=np.array(stp['z'], dtype=float),
                              h=np.array(stp['h'], dtype=float))
                    if gids:
                        c0 = counters[stp['arr']]
                        kw['gid'] = np.array(
                            [_gid(c0 + q) for q in range(k)],
                            dtype=np.uint32)
                    counters[stp['arr']] += k
                    if k:
                        pa.add_particles(**kw)
                elif op == 'remove':
                    pa.remove_particles(np.array(stp['idx'], dtype=int))
                elif op == 'empty':
                    n = pa.get_number_of_particles()
                    if n:
                        pa.remove_particles(np.arange(n))
                try:
                    if stp.get('nodomain'):
                        labels.add('update_without_domain')
                    else:
                        nps.update_domain()
                    nps.update()
                except RuntimeError as ex:
                    msg = str(ex)
                    if 'too many cells' in msg or 'cells is negative' in msg:
                        labels.add('rejected_too_many_cells_update')
                        return [], sorted(labels), False
                    fail('exception', 'update after %s: %r' % (op, ex),
                         {'phase': 'post_update'})
                except (MemoryError, ValueError, IndexError) as ex:
                    fail('exception', 'update after %s: %r' % (op, ex),
                         {'phase': 'post_update'})
            S = snapshot(pas)
            if dom and any(int((pa_.get('tag', only_real_particles=False)
                                == 2).sum()) for pa_ in pas):
                labels.add('periodic_ghosts')
            occupied(S)
            orc = {(d, s): oracle(S, d, s) for d in range(na)
                   for s in range(na)}
            sty = run_styles(list(styles[phase]), cur_cache)
            last = query_all(nps, pas, S, phase, sty, orc, the_nb,
                             cur_cache)
            ex = {'phase': 'initial' if phase == 0 else 'post_update'}
            if cur_cache:
                nc = no_cache_all(nps, S, na,
                                  the_nb if shared_nb else None)
                for key in nc:
                    if key not in last:
                        continue
                    i = same_sets(last[key], nc[key], len(S[key[0]]['x']),
                                  len(S[key[1]]['x']))
                    if i is not None:
                        fail('cache_mismatch', 'phase %d dst=a%d[%d] '
                             'src=a%d: cache %s, no cache %s' % (
                                 phase, key[0], i, key[1],
                                 sorted(last[key][i].tolist()),
                                 sorted(nc[key][i].tolist())), ex)
                labels.add('cache_compared')
            if phase == len(steps) and steps:
                fdata = [dict(x=s_['x'], y=s_['y'], z=s_['z'], h=s_['h'],
                              gid=s_['gid']) for s_ in S]
                fpas = make_pas(fdata)
                try:
                    fresh = construct(fpas, False, with_domain=False)
                except Exception as ex_:
                    fail('exception', 'constructing a fresh NNPS on the '
                         'final state: %r' % ex_, ex)
                a1 = no_cache_all(nps, S, na)
                a2 = no_cache_all(fresh, S, na)
                for key in a1:
                    i = same_sets(a1[key], a2[key], len(S[key[0]]['x']),
                                  len(S[key[1]]['x']))
                    if i is not None:
                        fail('history_mismatch', 'dst=a%d[%d] src=a%d: '
                             'after the history %s, fresh NNPS on the '
                             'same particles %s' % (
                                 key[0], i, key[1],
                                 sorted(a1[key][i].tolist()),
                                 sorted(a2[key][i].tolist())), ex)
                labels.add('fresh_compared')
    except _Bail:
        pass
    degenerate = any(a['fam'] not in ('uniform',) for a in case['arrays'])
    nt = nontriv['mid'] and (nontriv['cells'] or bool(steps) or degenerate)
    return fails, sorted(labels), bool(nt)


def run_case(case, component, ctx):
    """Replay: the case runs in a forked child with the same guards as in
    the search, so that a crash or a hang is an ordinary failure."""
    case = relabel(json.loads(canon(case)))
    res = run_isolated(case, HANG_S)
    if res[0] == 'ok':
        fails = res[1]
    elif res[0] == 'crash':
        fails = [Failure(case['cls'], 'crash', 'the process running this '
                         'case died on signal %d' % res[1], klass_of(case))]
    elif res[0] == 'hang':
        fails = [Failure(case['cls'], 'hang', 'no result after %g s'
                         % HANG_S, klass_of(case))]
    else:
        raise RuntimeError(res[1])
    return [f.as_dict(case) for f in fails]


# --------------------------------------------------------------------------
# crash containment: every case runs in its own forked child
# --------------------------------------------------------------------------
def _limit_child():
    try:
        import resource
        lim = 16 * 1024 ** 3
        resource.setrlimit(resource.RLIMIT_AS, (lim, lim))
        resource.setrlimit(resource.RLIMIT_CORE, (0, 0))
    except Exception:
        pass


def run_isolated(case, timeout):
    """check(case) in a forked child.
    -> ('ok', fails(list of Failure), labels, nontrivial)
     | ('crash', signal) | ('hang', 0) | ('error', text)"""
    import select
    sys.stdout.flush()
    sys.stderr.flush()
    r, w = os.pipe()
    pid = os.fork()
    if pid == 0:
        code = 0
        try:
            os.close(r)
            _limit_child()
            try:
                fails, labels, nt = check(case)
                out = {'fails': [f.as_dict() for f in fails],
                       'labels': labels, 'nt': nt}
            except BaseException:
                import traceback
                out = {'error': traceback.format_exc()[-3000:]}
            data = json.dumps(out, default=str).encode()
            view = memoryview(data)
            while view:
                n = os.write(w, view[:65536])
                view = view[n:]
            os.close(w)
            # tear everything down: heap corruption often shows only here
            import gc
            gc.collect()
        except BaseException:
            code = 5
        finally:
            os._exit(code)
    os.close(w)
    chunks = []
    t_end = time.time() + timeout
    hung = False
    while True:
        left = t_end - time.time()
        if left <= 0:
            hung = True
            break
        rd, _, _ = select.select([r], [], [], min(left, 1.0))
        if rd:
            b = os.read(r, 1 << 16)
            if not b:
                break
            chunks.append(b)
    os.close(r)
    if hung:
        try:
            os.kill(pid, signal.SIGKILL)
        except OSError:
            pass
        os.waitpid(pid, 0)
        return ('hang', 0)
    _, status = os.waitpid(pid, 0)
    if os.WIFSIGNALED(status):
        return ('crash', os.WTERMSIG(status))
    try:
        out = json.loads(b''.join(chunks).decode())
    except Exception:
        return ('error', 'child exit %d, unreadable result' %
                os.WEXITSTATUS(status))
    if 'error' in out:
        return ('error', out['error'])
    fails = [Failure(f['component'], f['kind'], f.get('detail', ''),
                     f.get('klass'), f.get('expected'), f.get('observed'))
             for f in out['fails']]
    return ('ok', fails, out['labels'], out['nt'])


class HarnessError(Exception):
    pass


class Runner(object):
    """execute() for one search round: isolation, hang guard, shrink budget.
    After the first failure of a round only failures of the same kind count
    (so that shrinking does not slip to another defect) and the number of
    further executions is bounded."""

    def __init__(self, cls, tier):
        self.cls = cls
        self.quick = tier == 'quick'
        self.new_round()

    def new_round(self):
        self.first_fail_tags = None
        self.first_kind = None
        self.after_fail = 0
        self.hangs = 0
        self.memo = {}

    def __call__(self, case):
        if case.get('_dead'):
            return Outcome([], [self.cls, 'excluded:class_entirely'] +
                           ['excluded:' + e
                            for e in case.get('_excluded', [])],
                           False, skipped=True)
        key = canon(case)
        if key in self.memo:
            return self.memo[key]
        if self.first_kind is not None:
            self.after_fail += 1
            if self.after_fail > (300 if self.quick else 1500) or \
                    self.hangs > 3:
                # shrink budget used up: let the shrinker finish
                return Outcome([], ['shrink_budget_exhausted'], False,
                               skipped=True)
        res = run_isolated(case, HANG_S)
        base = [self.cls] + ['excluded:' + e
                             for e in case.get('_excluded', [])]
        if res[0] == 'ok':
            out = Outcome(res[1], res[2], res[3])
        elif res[0] == 'crash':
            out = Outcome([Failure(self.cls, 'crash', 'the process running '
                                   'this case died on signal %d' % res[1],
                                   klass_of(case))], base + ['crashed'])
        elif res[0] == 'hang':
            # a time limit is not a correctness signal: the case gets one
            # more run with ten times the limit (the machine may be loaded,
            # big sparse inputs are slow for the hash classes); only a case
            # that is still silent then is reported
            res2 = run_isolated(case, 10 * HANG_S)
            if res2[0] == 'ok':
                out = Outcome(res2[1], list(res2[2]) + ['slow_case'],
                              res2[3])
            elif res2[0] == 'crash':
                out = Outcome([Failure(self.cls, 'crash', 'the process '
                                       'running this case died on signal %d'
                                       % res2[1], klass_of(case))],
                              base + ['crashed'])
            else:
                self.hangs += 1
                out = Outcome([Failure(self.cls, 'hang', 'no result after '
                                       '%g s (and %g s before)' % (
                                           10 * HANG_S, HANG_S),
                                       klass_of(case))], base + ['hung'])
        else:
            raise HarnessError(res[1])
        if out.failures:
            if self.first_kind is None:
                self.first_kind = out.failures[0].kind
                self.first_fail_tags = tags_of(case)
            out.failures = [f for f in out.failures
                            if f.kind == self.first_kind]
            self.memo[key] = out
        return out


def run_shard(spec, ctx):
    os.environ.setdefault('OMP_WAIT_POLICY', 'PASSIVE')
    import pysph.base.nnps  # noqa: F401  (imported once; children inherit)
    cls = spec['cls']
    budget = spec['max_examples']
    big = ctx.tier == 'thorough'
    excl = [dict(e) for e in spec.get('exclude', [])]
    stats = Stats()
    runner = Runner(cls, ctx.tier)
    rounds = 0
    log = []
    max_rounds = spec.get('max_rounds', 40)
    spent = 0      # executions spent on shrinking do not count
    while stats.evaluations - spent < budget and rounds < max_rounds:
        if any(not e.get('tags') and 'dim' not in e and
               'has_history' not in e for e in excl):
            stats.label('excluded:class_entirely',
                        budget - (stats.evaluations - spent))
            break
        nfail = len(stats.failures)
        runner.new_round()
        search(case_strategy(cls, big, list(excl), spec.get('pin')), runner,
               derive_seed(ctx.seed, 'C01', spec['name'], rounds),
               budget + spent, stats, shrink=True, max_rounds=1,
               journal=ctx.journal)
        spent += runner.after_fail
        rounds += 1
        new = stats.failures[nfail:]
        if not new:
            break
        first = set(runner.first_fail_tags or [])
        for f in new:
            full = tags_of(f['case'])
            tg = [t for t in full if t in first] or full
            e = {'cls': cls, 'tags': tg}
            if e not in excl:
                excl.append(e)
            log.append('%s %s -> exclude %s' % (
                f['kind'], '+'.join(f['klass'].get('tags', [])),
                excl_label(e)))
    stats.extra = {'c01_rounds': rounds, 'c01_shrink_executions': spent,
                   'c01_exclusions': {spec['name']: [excl_label(e)
                                                     for e in excl]},
                   'c01_log': {spec['name']: log}}
    return stats.result()


def plan(ctx):
    quick = ctx['tier'] == 'quick'
    per_class = 230 if quick else 6000
    slices = 1 if quick else 8
    entries = list(ctx.get('known_open', []))
    extra = os.environ.get('VERIF_C01_KNOWN')   # development aid only
    if extra and os.path.exists(extra):
        entries += json.load(open(extra))
    known = [excl_from_known(e) for e in entries]
    known = [e for e in known if e]
    specs = []
    for short, cls in CLASSES.items():
        for k in range(slices):
            specs.append({
                'name': '%s-%d' % (short, k), 'cls': cls, 'component': cls,
                'klass': {'class': cls},
                'max_examples': per_class // slices,
                'exclude': [e for e in known if e['cls'] == cls],
                'omp': 4,
            })
    # stratified shards: multi-resolution input for every algorithm, and the
    # builder variants of the trees (Octree builds serially with one thread,
    # CompressedOctree with one or two, both in parallel otherwise or when
    # test_parallel is set)
    strat = [(short, cls, 'varh', {'hmode': 'log'})
             for short, cls in CLASSES.items()]
    strat += [('Octree', 'OctreeNNPS', 'serial',
               {'hmode': 'log', 'threads': 1, 'knob:test_parallel': False}),
              ('CompOctree', 'CompressedOctreeNNPS', 'serial',
               {'hmode': 'log', 'threads': 2, 'knob:test_parallel': False}),
              ('Octree', 'OctreeNNPS', 'parallel',
               {'hmode': 'log', 'threads': 3}),
              ('CompOctree', 'CompressedOctreeNNPS', 'parallel',
               {'hmode': 'log', 'threads': 3})]
    # coverage-audit shard per class: the further query styles and one of
    # the further environments in every case
    strat += [(short, cls, 'ext', {'api': True, 'env_force': True})
              for short, cls in CLASSES.items()]
    # stencil shard per class: one missing cell of a 27-cell stencil shows
    # in only ~5% of the general 3-D cases
    strat += [(short, cls, 'stencil', {'dense': True})
              for short, cls in CLASSES.items()]
    per = {'ext': 90 if quick else 800, 'stencil': 40 if quick else 400}
    for short, cls, what, pin in strat:
        specs.append({
            'name': '%s-%s' % (short, what), 'cls': cls, 'component': cls,
            'klass': {'class': cls},
            'max_examples': per.get(what, 120 if quick else 1500),
            'exclude': [e for e in known if e['cls'] == cls],
            'omp': 4, 'pin': pin,
        })
    return specs
