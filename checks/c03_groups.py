"""C03 - groups run in the documented order over the documented particles.

Generated group trees of tracer equations (checks/c03_eqs.py) are compiled
through SPHEvaluator and compared bitwise with the reference interpreter
vlib/refeval.py (written from the documentation) on generated data sets.
"""
import json

from hypothesis import HealthCheck, Phase, given, seed, settings
from hypothesis import strategies as st

from vlib.hyp import (Failure, Outcome, Stats, search, derive_seed, canon,
                      case_hash)

RULE = ('program = group tree (2-6 top-level groups; flat leaf groups and '
        'one level of sub-groups) of tracer equations defining different '
        'subsets of the hooks, with drawn real / start_idx / stop_idx (int, '
        'property name, constant name) / iterate,min,max / condition / pre / '
        'post / update_nnps / several destinations and sources; data set = '
        '1-3 arrays (ghost tail, possibly an empty source array), positions, '
        'h, tracer values, t, dt. One compile per program, many data sets. '
        'Non-trivial = program has >= 2 groups and at least one of the '
        'features {>=2 destinations in a group, sub-group, iterate with '
        'min>=1, start/stop given, real=False with ghosts present, false '
        'condition, update_nnps followed by a later group} and the run '
        'executed >= 1 pair interaction; distinct by (program, data) hash.')
ASSUMPTIONS = [
    'neighbour lists come from LinkedListNNPS(sort_gids=True) on both sides '
    '(C01 establishes their correctness)',
    'serial execution (OpenMP off); particles move only in groups that '
    'refresh neighbours',
    'min_iterations <= max_iterations, max_iterations >= 1 (documented '
    'preconditions)',
]
ESSENTIAL_LABELS = {'all': ['multi_dest', 'subgroup', 'iterate_min>=1',
                            'start_stop', 'real_false_ghosts',
                            'false_condition', 'update_nnps_then_group',
                            'multi_source', 'hook:loop_all',
                            'hook:initialize_pair', 'hook:reduce',
                            'hook:py_initialize', 'pre_post',
                            'idx_by_name', 'openmp', 'periodic_ghosts',
                            'mirror_ghosts',
                            'pair_init_mixed_sources']}
SHARD_TIMEOUT = {'quick': 1500, 'thorough': 6 * 3600}

CLASSES = ['TI', 'TL', 'TIL', 'TILP', 'TA', 'TPA', 'TP', 'TR', 'TLR', 'TPY',
           'TT']
NEEDS_SOURCE = {'TL', 'TIL', 'TILP', 'TA', 'TPA', 'TLR'}
KERNELS = ['CubicSpline', 'QuinticSpline', 'WendlandQuintic', 'Gaussian']


# ------------------------------------------------------------- strategies
@st.composite
def eq_strategy(draw, names, dests):
    cls = draw(st.sampled_from(CLASSES))
    dest = draw(st.sampled_from(dests))
    if cls in NEEDS_SOURCE or draw(st.booleans()):
        k = draw(st.integers(1, len(names)))
        perm = draw(st.permutations(names))
        sources = list(perm[:k])
    else:
        sources = None
    return dict(cls=cls, dest=dest, sources=sources,
                k=draw(st.integers(1, 9)))


@st.composite
def leaf_strategy(draw, names, dests, allow_iter=True):
    ndest = draw(st.sampled_from([1, 1, 2, len(dests)]))
    ds = list(draw(st.permutations(dests)))[:max(1, min(ndest, len(dests)))]
    eqs = draw(st.lists(eq_strategy(names, ds), min_size=1, max_size=5))
    g = dict(kind='leaf', eqs=eqs,
             real=draw(st.sampled_from([True, True, False])),
             start=draw(st.sampled_from([0, 0, 0, 1, 2, 'istart'])),
             stop=draw(st.sampled_from([None, None, None, 3, 4, 'nstop'])),
             cond=draw(st.sampled_from([None, None, None, 'true', 'false',
                                        't>0.5'])),
             pre=draw(st.booleans()), post=draw(st.booleans()),
             update_nnps=draw(st.sampled_from([False, False, True])),
             iterate=False, min_it=0, max_it=1)
    if allow_iter and draw(st.integers(0, 2)) == 0:
        g['iterate'] = True
        g['min_it'] = draw(st.integers(0, 3))
        g['max_it'] = draw(st.integers(max(1, g['min_it']), 5))
        # an iterated group needs an equation that can report convergence
        if not any(e['cls'] in ('TR', 'TLR') for e in eqs):
            d = eqs[0]['dest']
            eqs.append(dict(cls='TR', dest=d, sources=None,
                            k=draw(st.integers(1, 9))))
    if g['update_nnps'] and draw(st.booleans()):
        d = eqs[0]['dest']
        eqs.append(dict(cls='TNudge', dest=d, sources=None, k=1))
    return g


@st.composite
def program_strategy(draw, force_periodic=False):
    dim = 2 if force_periodic else draw(st.sampled_from([1, 2, 2, 3]))
    kernel = draw(st.sampled_from(KERNELS))
    if kernel == 'WendlandQuintic' and dim == 1:
        kernel = 'CubicSpline'
    narr = draw(st.sampled_from([1, 2, 2, 3]))
    names = ['a%d' % i for i in range(narr)]
    # the last array of a 3-array program may be empty in some data sets
    # and is therefore never a destination
    dests = names[:2] if narr == 3 else names
    groups = []
    for _ in range(draw(st.integers(2, 6))):
        if draw(st.integers(0, 3)) == 0:
            subs = draw(st.lists(leaf_strategy(names, dests,
                                               allow_iter=False),
                                 min_size=1, max_size=3))
            for s in subs:
                # nudges only where the neighbours are refreshed at once
                if not s['update_nnps']:
                    s['eqs'] = [e for e in s['eqs']
                                if e['cls'] != 'TNudge'] or s['eqs'][:1]
            g = dict(kind='parent', subs=subs,
                     cond=draw(st.sampled_from([None, None, 'true', 'false',
                                                't>0.5'])),
                     pre=draw(st.booleans()), post=draw(st.booleans()),
                     update_nnps=draw(st.sampled_from([False, True])),
                     iterate=False, min_it=0, max_it=1)
            if draw(st.integers(0, 2)) == 0:
                g['iterate'] = True
                g['min_it'] = draw(st.integers(0, 2))
                g['max_it'] = draw(st.integers(max(1, g['min_it']), 4))
                if not any(e['cls'] in ('TR', 'TLR') for s in subs
                           for e in s['eqs']):
                    subs[0]['eqs'].append(dict(
                        cls='TR', dest=subs[0]['eqs'][0]['dest'],
                        sources=None, k=draw(st.integers(1, 9))))
            groups.append(g)
        else:
            groups.append(draw(leaf_strategy(names, dests)))
    if draw(st.integers(0, 2)) > 0:
        # a group that moves particles and refreshes the neighbours,
        # followed by a group whose result depends on the neighbour lists
        d = dests[0]
        pos = draw(st.integers(0, len(groups) - 1))
        nudge = dict(kind='leaf',
                     eqs=[dict(cls='TP', dest=d, sources=None,
                               k=draw(st.integers(1, 9))),
                          dict(cls='TNudge', dest=d, sources=None, k=1)],
                     real=True, start=0, stop=None, cond=None, pre=False,
                     post=False, update_nnps=True, iterate=False, min_it=0,
                     max_it=1)
        dep = dict(kind='leaf',
                   eqs=[dict(cls=draw(st.sampled_from(['TL', 'TA'])),
                             dest=d, sources=list(names),
                             k=draw(st.integers(1, 9)))],
                   real=True, start=0, stop=None, cond=None, pre=False,
                   post=False, update_nnps=False, iterate=False, min_it=0,
                   max_it=1)
        groups[pos:pos] = [nudge, dep]
    if narr >= 2 and draw(st.integers(0, 1)) == 0:
        # per-source hooks: two equations of one destination with
        # initialize_pair that list different sources (each must run for its
        # own sources only, with that source's arrays)
        d = dests[draw(st.integers(0, len(dests) - 1))]
        s0, s1 = names[0], names[1]
        eqs = [dict(cls='TPA', dest=d, sources=[s0],
                    k=draw(st.integers(1, 9))),
               dict(cls='TPA', dest=d, sources=[s1],
                    k=draw(st.integers(1, 9)))]
        if draw(st.booleans()):
            eqs.insert(draw(st.integers(0, 2)),
                       dict(cls='TL', dest=d, sources=list(names),
                            k=draw(st.integers(1, 9))))
        groups.insert(draw(st.integers(0, len(groups))), dict(
            kind='leaf', eqs=eqs, real=True, start=0, stop=None, cond=None,
            pre=False, post=False, update_nnps=False, iterate=False,
            min_it=0, max_it=1))
    periodic = force_periodic or (dim == 2 and
                                  draw(st.integers(0, 2)) == 0)
    if periodic is True and not force_periodic:
        # kind of domain: periodic box, mirror walls, periodic x + mirror y
        periodic = draw(st.sampled_from([True, True, 'mirror', 'mixed']))
    return dict(dim=dim, kernel=kernel, names=names, groups=groups,
                periodic=periodic)


@st.composite
def data_strategy(draw, prog):
    dim = prog['dim']
    names = prog['names']
    per = prog.get('periodic', False)
    # periodic programs: box [0, 4)^2, ghosts are created by the domain
    # manager at every update_domain (update_nnps), none are static
    L = 4.0 if per else draw(st.sampled_from([1.0, 1.5, 2.5]))
    arrays = []
    for i, nm in enumerate(names):
        if len(names) == 3 and i == 2:
            n = draw(st.sampled_from([0, 0, 1, 3, 6]))
        else:
            n = draw(st.integers(4, 12))
        nghost = draw(st.integers(0, max(0, n - 4))) if n > 4 and \
            draw(st.booleans()) and not per else 0
        coords = []
        for a in range(3):
            if a < dim:
                coords.append([draw(st.integers(0, 63)) / 64.0 * L
                               for _ in range(n)])
            else:
                coords.append([0.0] * n)
        hk = draw(st.sampled_from(['const', 'var']))
        h0 = 0.3 if per else draw(st.sampled_from([0.3, 0.45, 0.6]))
        hs = [h0 if hk == 'const' else
              h0 * draw(st.sampled_from([0.75, 1.0, 1.25]))
              for _ in range(n)]
        nreal = n - nghost
        arrays.append(dict(
            name=nm, n=n, nghost=nghost,
            props=dict(
                x=dict(data=coords[0]), y=dict(data=coords[1]),
                z=dict(data=coords[2]), h=dict(data=hs),
                q=dict(data=[draw(st.integers(-8, 8)) / 4.0
                             for _ in range(n)]),
                tr=dict(type='long',
                        data=[draw(st.integers(0, 1000002))
                              for _ in range(n)]),
                w0=dict(type='long',
                        data=[draw(st.integers(0, 50)) for _ in range(n)]),
                istart=dict(type='int',
                            data=[draw(st.integers(0, nreal))] +
                            [0] * (n - 1) if n else []),
            ),
            constants=dict(
                nstop=dict(type='long',
                           data=[draw(st.integers(0, n))]),
                cst=dict(data=[draw(st.integers(0, 5)) * 1.0]),
            )))
        if per in ('mirror', 'mixed'):
            # mirror walls reflect the velocity of the image particles: the
            # domain manager requires u, v, w
            for vn in ('u', 'v', 'w'):
                arrays[-1]['props'][vn] = dict(
                    data=[draw(st.integers(-4, 4)) / 4.0 for _ in range(n)])
    return dict(arrays=arrays, t=draw(st.integers(0, 8)) / 8.0,
                dt=draw(st.integers(1, 8)) / 64.0)


# ----------------------------------------------------------- construction
def build_groups(prog, arrays, log, tag0):
    """Build Group objects for one side (compiled or reference)."""
    from pysph.sph.equation import Group
    from checks import c03_eqs as E
    byname = dict((a.name, a) for a in arrays)
    eq_objs = []
    counter = [0]

    def mk_eq(e):
        cls = getattr(E, e['cls'])
        counter[0] += 1
        o = cls(dest=e['dest'], sources=e['sources'], k=e['k'],
                tag=tag0 + counter[0])
        eq_objs.append(o)
        return o

    def callbacks(g, gname):
        cond = None
        if g['cond'] == 'true':
            def cond(t, dt, _n=gname):
                log.append(('condition', _n, float(t), float(dt)))
                return True
        elif g['cond'] == 'false':
            def cond(t, dt, _n=gname):
                log.append(('condition', _n, float(t), float(dt)))
                return False
        elif g['cond'] == 't>0.5':
            def cond(t, dt, _n=gname):
                log.append(('condition', _n, float(t), float(dt)))
                return t > 0.5
        pre = post = None
        if g['pre']:
            def pre(_n=gname):
                log.append(('pre', _n))
                a = arrays[0]
                a.get_carray('cst').get_npy_array()[0] += 1.0
                tr = a.get_carray('tr').get_npy_array()
                if len(tr):
                    tr[0] = (tr[0] * 31 + 17) % 1000003
        if g['post']:
            def post(_n=gname):
                log.append(('post', _n))
                a = arrays[-1]
                tr = a.get_carray('tr').get_npy_array()
                if len(tr):
                    tr[-1] = (tr[-1] * 31 + 19) % 1000003
        return cond, pre, post

    def mk_leaf(g, gname):
        cond, pre, post = callbacks(g, gname)
        return Group(equations=[mk_eq(e) for e in g['eqs']], real=g['real'],
                     update_nnps=g['update_nnps'], iterate=g['iterate'],
                     max_iterations=g['max_it'], min_iterations=g['min_it'],
                     pre=pre, post=post, condition=cond,
                     start_idx=g['start'], stop_idx=g['stop'],
                     name='G' + gname)
    out = []
    for i, g in enumerate(prog['groups']):
        if g['kind'] == 'leaf':
            out.append(mk_leaf(g, str(i)))
        else:
            cond, pre, post = callbacks(g, str(i))
            subs = [mk_leaf(s, '%d_%d' % (i, j))
                    for j, s in enumerate(g['subs'])]
            out.append(Group(equations=subs, update_nnps=g['update_nnps'],
                             iterate=g['iterate'],
                             max_iterations=g['max_it'],
                             min_iterations=g['min_it'], pre=pre, post=post,
                             condition=cond, name='G%d' % i))
    return out, eq_objs


def program_features(prog):
    feats = set()
    leaves = []
    for gi, g in enumerate(prog['groups']):
        if g['kind'] == 'parent':
            feats.add('subgroup')
            leaves += [(gi, s) for s in g['subs']]
            top = [g]
        else:
            leaves.append((gi, g))
            top = [g]
        for x in top:
            if x['iterate'] and x['min_it'] >= 1:
                feats.add('iterate_min>=1')
            if x['cond'] == 'false':
                feats.add('false_condition')
            if x['pre'] or x['post']:
                feats.add('pre_post')
            if x['update_nnps'] and gi < len(prog['groups']) - 1:
                feats.add('update_nnps_then_group')
    for gi, l in leaves:
        if len(set(e['dest'] for e in l['eqs'])) >= 2:
            feats.add('multi_dest')
        if l['start'] != 0 or l['stop'] is not None:
            feats.add('start_stop')
        if isinstance(l['start'], str) or isinstance(l['stop'], str):
            feats.add('idx_by_name')
        if not l['real']:
            feats.add('real_false')
        if l['cond'] == 'false':
            feats.add('false_condition')
        if l['pre'] or l['post']:
            feats.add('pre_post')
        if l['update_nnps'] and gi < len(prog['groups']) - 1:
            feats.add('update_nnps_then_group')
        pi = [(e['dest'], tuple(sorted(e['sources'] or ())))
              for e in l['eqs'] if e['cls'] == 'TPA']
        if any(a[0] == b[0] and a[1] != b[1] for a in pi for b in pi):
            feats.add('pair_init_mixed_sources')
        for e in l['eqs']:
            if e['sources'] and len(e['sources']) >= 2:
                feats.add('multi_source')
            hooks = {'TA': ['loop_all'], 'TPA': ['loop_all',
                                                 'initialize_pair'],
                     'TR': ['reduce'], 'TLR': ['reduce'],
                     'TPY': ['py_initialize']}.get(e['cls'], [])
            for h in hooks:
                feats.add('hook:' + h)
    return feats


class Side(object):
    pass


def make_domain(prog):
    if not prog.get('periodic'):
        return None
    from pysph.base.nnps import DomainManager
    if prog['periodic'] == 'mirror':
        return DomainManager(xmin=0.0, xmax=4.0, ymin=0.0, ymax=4.0,
                             mirror_in_x=True, mirror_in_y=True)
    if prog['periodic'] == 'mixed':
        return DomainManager(xmin=0.0, xmax=4.0, ymin=0.0, ymax=4.0,
                             periodic_in_x=True, mirror_in_y=True)
    return DomainManager(xmin=0.0, xmax=4.0, ymin=0.0, ymax=4.0,
                         periodic_in_x=True, periodic_in_y=True)


def setup_program(prog, first_data):
    """Compile the program once; returns the two sides."""
    from pysph.base import kernels
    from vlib import jit
    from vlib.refeval import RefEval
    from checks import c03_eqs as E
    E.LOGS.clear()
    K = getattr(kernels, prog['kernel'])
    c = Side()
    c.arrays = jit.make_arrays(first_data['arrays'])
    c.log = []
    c.groups, c.eqs = build_groups(prog, c.arrays, c.log, 0)
    c.kernel = K(dim=prog['dim'])
    c.ev = jit.compiled_evaluator(c.arrays, c.groups, c.kernel, prog['dim'],
                                  domain=make_domain(prog))
    r = Side()
    r.arrays = jit.make_arrays(first_data['arrays'])
    r.log = []
    r.groups, r.eqs = build_groups(prog, r.arrays, r.log, 100000)
    r.kernel = K(dim=prog['dim'])
    r.nnps = jit.sorted_nnps(prog['dim'], r.arrays, r.kernel.radius_scale,
                             domain=make_domain(prog))
    r.ev = RefEval(r.arrays, r.groups, r.kernel, r.nnps)
    return c, r


def reset_attrs(c, r):
    for ce, re_ in zip(c.eqs, r.eqs):
        for k in ('rsum', 'ncalls', 'nreduce'):
            if hasattr(re_, k):
                setattr(re_, k, 0.0)
                setattr(getattr(c.ev.func_eval.c_acceleration_eval,
                                ce.var_name), k, 0.0)


def run_data(prog, sides, data):
    """Execute one data set on both sides; -> (failures, labels, nontriv)."""
    from vlib import jit
    from vlib.refeval import RefUndefined
    from checks import c03_eqs as E
    c, r = sides
    labels = []
    fails = []
    feats = program_features(prog)
    has_ghost = any(a['nghost'] > 0 for a in data['arrays'])
    if 'real_false' in feats and has_ghost:
        feats.add('real_false_ghosts')
    feats.discard('real_false')
    if prog.get('periodic'):
        feats.add('periodic_ghosts' if prog['periodic'] is True
                  else 'mirror_ghosts')
    labels += sorted(feats)
    jit.load_data(c.arrays, data['arrays'])
    jit.load_data(r.arrays, data['arrays'])
    c.ev.update()
    r.nnps.update_domain()
    r.nnps.update()
    reset_attrs(c, r)
    del c.log[:]
    del r.log[:]
    E.LOGS.clear()
    r.ev.pair_calls = 0
    t, dt = data['t'], data['dt']
    try:
        r.ev.compute(t, dt)
    except RefUndefined as ex:
        return [], labels + ['ref_undefined'], False
    try:
        c.ev.evaluate(t, dt)
    except Exception as ex:
        fails.append(Failure('AccelerationEval', 'exception', repr(ex)))
        return fails, labels, False
    diffs = jit.compare_arrays(r.arrays, c.arrays, bitwise=True)
    if diffs:
        d = diffs[0]
        fails.append(Failure(
            'AccelerationEval', 'state_differs',
            'array %s property %s index %s: reference %s, compiled %s (%s)'
            % d, dict(prop=d[1] if d[1] in ('tr', 'q', 'x', 'y', 'cst')
                      else 'other')))
    for ce, re_ in zip(c.eqs, r.eqs):
        ra = jit.public_numeric_attrs(re_)
        ca = jit.compiled_equation_attrs(c.ev.func_eval, ce)
        for k, v in ra.items():
            if k in ca and ca[k] != v:
                fails.append(Failure(
                    'AccelerationEval', 'equation_attribute',
                    '%s.%s: reference %r, compiled %r' % (
                        ce.var_name, k, v, ca[k]),
                    dict(attr=k)))
                break
    if c.log != r.log:
        fails.append(Failure('AccelerationEval', 'callback_log',
                             'reference %r, compiled %r' % (r.log[:12],
                                                            c.log[:12])))
    lc = dict((k, v) for k, v in E.LOGS.items() if k < 100000)
    lr = dict((k - 100000, v) for k, v in E.LOGS.items() if k >= 100000)
    if lc != lr:
        fails.append(Failure('AccelerationEval', 'py_initialize_log',
                             'reference %r, compiled %r' % (lr, lc)))
    nontrivial = len(prog['groups']) >= 2 and bool(feats & {
        'multi_dest', 'subgroup', 'iterate_min>=1', 'start_stop',
        'real_false_ghosts', 'false_condition', 'update_nnps_then_group'}) \
        and r.ev.pair_calls > 0
    return fails, labels, nontrivial


# ------------------------------------------------------------ entry points
def plan(ctx):
    if ctx['tier'] == 'quick':
        nprog, ndata = 1, 12
        k = 16
    else:
        nprog, ndata = 25, 40
        k = 16
    return [dict(name='prog-%02d%s' % (i, '-omp' if i % 4 == 3 else ''),
                 nprog=nprog, ndata=ndata,
                 periodic=[True, 'mirror', 'mixed'][(i // 5) % 3]
                 if i % 5 == 1 else False,
                 omp=[0, 0, 0, 4][i % 4] if i % 8 != 7 else 16)
            for i in range(k)]


def run_shard(spec, ctx):
    stats = Stats()
    if spec.get('omp'):
        # OpenMP build of the same programs (per-thread scratch vectors,
        # parallel ranges); hooks only write their own destination particle,
        # so the result must not depend on the schedule
        from compyle.config import get_config
        get_config().use_openmp = True
        stats.label('openmp')
    stats.extra['programs'] = 0
    stats.extra['jit_compiles'] = 0
    calls = [0]

    @seed(derive_seed(ctx.seed, 'C03', spec['name']))
    @settings(max_examples=spec['nprog'] + 1, database=None, deadline=None,
              phases=[Phase.generate], derandomize=False,
              suppress_health_check=list(HealthCheck))
    @given(st.data())
    def outer(dat):
        prog = dat.draw(program_strategy(spec.get('periodic') or False))
        first = dat.draw(data_strategy(prog))
        calls[0] += 1
        if calls[0] == 1:
            # Hypothesis always starts with the all-minimal example, the
            # same in every shard: not worth a compile
            return
        ctx.journal(dict(program=prog, data=first))
        try:
            sides = setup_program(prog, first)
        except SystemExit:
            # compyle's ExtModule exits when the generated Cython does not
            # compile: the documented group tree was not translated
            f = Failure('SPHCompiler', 'compile_failed',
                        'generated code for a documented group tree does '
                        'not compile', dict(feature=compile_feature(prog)))
            if f.sig() not in stats.masked:
                stats.masked.add(f.sig())
                stats.failures.append(f.as_dict(dict(program=prog,
                                                     data=first)))
            stats.evaluations += 1
            return
        stats.extra['programs'] += 1
        stats.extra['jit_compiles'] += 1

        def execute(data):
            fails, labels, nt = run_data(prog, sides, data)
            for f in fails:
                f.klass.setdefault('feature', '')
            return Outcome(fails, labels, nt)
        inner = Stats()
        search(data_strategy(prog), execute,
               derive_seed(ctx.seed, 'C03d', spec['name'],
                           stats.extra['programs']),
               spec['ndata'], inner, shrink=True)
        # merge, attaching the program to every case
        stats.evaluations += inner.evaluations
        for h in inner.nontrivial:
            stats.nontrivial.add(case_hash([canon(prog), h]))
        for k, v in inner.labels.items():
            stats.label(k, v)
        for s in inner.samples[:1]:
            if len(stats.samples) < 2:
                stats.samples.append(dict(program=prog, data=s))
        for f in inner.failures:
            f['case'] = dict(program=prog, data=f['case'])
            stats.failures.append(f)
        stats.skipped += inner.skipped
    outer()
    return stats.result()


def compile_feature(prog):
    for g in prog['groups']:
        if g['kind'] == 'parent' and (g['cond'] or g['iterate']):
            return 'subgroups_in_conditional_or_iterated_parent'
    return 'other'


def run_case(case, component, ctx):
    prog, data = case['program'], case['data']
    try:
        sides = setup_program(prog, data)
    except SystemExit:
        return [Failure('SPHCompiler', 'compile_failed',
                        'generated code for a documented group tree does '
                        'not compile',
                        dict(feature=compile_feature(prog))).as_dict(case)]
    fails, _, _ = run_data(prog, sides, data)
    return [f.as_dict(case) for f in fails]
