"""C03 - groups run in the documented order over the documented particles.

Generated group trees of tracer equations (checks/c03_eqs.py) are compiled
through SPHEvaluator and compared bitwise with the reference interpreter
vlib/refeval.py (written from the documentation) on generated data sets.
"""
import json

from hypothesis import HealthCheck, Phase, given, seed, settings
from hypothesis import strategies as st

from vlib.hyp import (Failure, Outcome, Stats, search, derive_seed, canon,
                      case_hash)

RULE = ('program = group tree (2-6 top-level groups; flat leaf groups and '
        'one level of sub-groups) of tracer equations defining different '
        'subsets of the hooks, with drawn real / start_idx / stop_idx (int, '
        'property name, constant name) / iterate,min,max / condition / pre / '
        'post / update_nnps / several destinations and sources, plus forced '
        'shapes per shard (several converging equations on two destinations '
        'in an iterated group; update_nnps inside an iterated group with '
        'moves beyond a cell; iterated parent of conditional sub-groups; '
        'loops without sources, equations with only reduce / only '
        'py_initialize / only initialize_pair / no hook; start from a '
        'constant, stop from a property; a plain equation list without '
        'Group objects; empty sub-groups); data set = 1-3 arrays (ghost '
        'tail; arrays, destinations included, may be empty, all ghosts or '
        '1-3 particles where every index of the program stays defined; '
        '150-260 particles in OpenMP shards), positions, h, tracer values, '
        't, dt, optionally a second evaluation at another time. One compile '
        'per program, many data sets. '
        'Non-trivial = program has >= 2 groups and at least one of the '
        'features {>=2 destinations in a group, sub-group, iterate with '
        'min>=1, start/stop given, real=False with ghosts present, false '
        'condition, update_nnps followed by a later group} and the run '
        'executed >= 1 pair interaction; distinct by (program, data) hash.')
ASSUMPTIONS = [
    'neighbour lists come from LinkedListNNPS(sort_gids=True) on both sides '
    '(C01 establishes their correctness)',
    'serial builds and (shards -omp) OpenMP builds with 4 or 16 threads; '
    'particles move only in groups that refresh neighbours',
    'a group without equations is generated only as a sub-group: at top '
    'level the template skips such a group on purpose ("No equations in '
    'this group"), its pre/post/update_nnps included, and the statement '
    'speaks of groups of equations; draws asking for one are counted as '
    'excluded:empty_top_group.  iterate on a sub-group is not generated '
    '(the statement gives it no meaning; the template ignores it)',
    'min_iterations <= max_iterations, max_iterations >= 1 (documented '
    'preconditions)',
]
ESSENTIAL_LABELS = {'all': ['multi_dest', 'subgroup', 'iterate_min>=1',
                            'start_stop', 'real_false_ghosts',
                            'false_condition', 'update_nnps_then_group',
                            'multi_source', 'hook:loop_all',
                            'hook:initialize_pair', 'hook:reduce',
                            'hook:py_initialize', 'pre_post',
                            'idx_by_name', 'openmp', 'periodic_ghosts',
                            'mirror_ghosts',
                            'pair_init_mixed_sources',
                            # coverage audit
                            'hook:no_source_loop', 'hook:only_reduce',
                            'hook:none', 'sources_without_loop',
                            'converged_multi', 'converged_multi_dest',
                            'converged_multi_subgroup', 'parent_iterate',
                            'sub_cond_in_iterated_parent',
                            'iter_update_nnps', 'idx_start_constant',
                            'idx_stop_property', 'real_false_with_stop',
                            'flat_list', 'large_arrays', 'second_call',
                            'sub_real_false', 'sub_start_stop',
                            'ghost_only_dest', 'tiny_dest',
                            'py_initialize_no_real',
                            'iter_hit_max', 'iter_converged_early']}
SHARD_TIMEOUT = {'quick': 1500, 'thorough': 6 * 3600}

CLASSES = ['TI', 'TL', 'TIL', 'TILP', 'TA', 'TPA', 'TP', 'TR', 'TLR', 'TPY',
           'TT', 'TLN', 'TRO', 'TPYO', 'TPO', 'TN', 'TC']
NEEDS_SOURCE = {'TL', 'TIL', 'TILP', 'TA', 'TPA', 'TLR', 'TPO'}
# classes whose converged() is not the inherited "always converged"
CONVERGING = ('TR', 'TLR', 'TRO', 'TC')
# hooks per class (for the labels)
HOOKS = {'TI': ['initialize'], 'TL': ['loop'],
         'TIL': ['initialize', 'loop'],
         'TILP': ['initialize', 'loop', 'post_loop'], 'TA': ['loop_all'],
         'TPA': ['initialize_pair', 'loop_all', 'loop'], 'TP': ['post_loop'],
         'TR': ['initialize', 'reduce'],
         'TLR': ['loop', 'post_loop', 'reduce'],
         'TPY': ['py_initialize', 'initialize'], 'TT': ['initialize'],
         'TLN': ['loop'], 'TRO': ['reduce'], 'TPYO': ['py_initialize'],
         'TPO': ['initialize_pair'], 'TN': [], 'TC': [],
         'TNudge': ['post_loop'], 'TNudgeBig': ['post_loop']}
# forced shapes, one set per shard (see plan()); every quick run has all
FORCES = ['conv_multi', 'iter_nnps', 'parent_iter', 'nosrc', 'named_idx',
          'flat']
KERNELS = ['CubicSpline', 'QuinticSpline', 'WendlandQuintic', 'Gaussian']


# ------------------------------------------------------------- strategies
@st.composite
def eq_strategy(draw, names, dests):
    cls = draw(st.sampled_from(CLASSES))
    dest = draw(st.sampled_from(dests))
    if cls in NEEDS_SOURCE or draw(st.booleans()):
        k = draw(st.integers(1, len(names)))
        perm = draw(st.permutations(names))
        sources = list(perm[:k])
    else:
        sources = None
    return dict(cls=cls, dest=dest, sources=sources,
                k=draw(st.integers(1, 9)))


@st.composite
def leaf_strategy(draw, names, dests, allow_iter=True, allow_empty=False):
    ndest = draw(st.sampled_from([1, 1, 2, len(dests)]))
    ds = list(draw(st.permutations(dests)))[:max(1, min(ndest, len(dests)))]
    eqs = draw(st.lists(eq_strategy(names, ds), min_size=1, max_size=5))
    # a group without equations: as a sub-group it still runs its pre / post
    # / update_nnps.  At top level the generated code drops the whole group
    # (finding C03-empty-top-group, see the audit report): not generated,
    # the draws that asked for it are counted
    empty = draw(st.integers(0, 9)) == 0
    g = dict(kind='leaf', eqs=eqs,
             real=draw(st.sampled_from([True, True, False])),
             start=draw(st.sampled_from([0, 0, 0, 0, 1, 2, 'istart',
                                         'cstart'])),
             stop=draw(st.sampled_from([None, None, None, None, 3, 4,
                                        'nstop', 'pstop'])),
             cond=draw(st.sampled_from([None, None, None, 'true', 'false',
                                        't>0.5'])),
             pre=draw(st.booleans()), post=draw(st.booleans()),
             update_nnps=draw(st.sampled_from([False, False, True])),
             iterate=False, min_it=0, max_it=1)
    if allow_iter and draw(st.integers(0, 2)) == 0:
        g['iterate'] = True
        g['min_it'] = draw(st.integers(0, 3))
        g['max_it'] = draw(st.integers(max(1, g['min_it']), 5))
        # an iterated group needs an equation that can report convergence
        if not any(e['cls'] in CONVERGING for e in eqs):
            d = eqs[0]['dest']
            eqs.append(dict(cls='TR', dest=d, sources=None,
                            k=draw(st.integers(1, 9))))
    if g['update_nnps'] and draw(st.booleans()):
        d = eqs[0]['dest']
        eqs.append(dict(cls='TNudge', dest=d, sources=None, k=1))
    if empty:
        if allow_empty and not g['iterate']:
            g['eqs'] = []
        else:
            g['excluded_empty_top'] = True
    return g


def _eq(cls, dest, sources=None, k=1):
    return dict(cls=cls, dest=dest, sources=sources, k=k)


def _leaf(eqs, **kw):
    g = dict(kind='leaf', eqs=eqs, real=True, start=0, stop=None, cond=None,
             pre=False, post=False, update_nnps=False, iterate=False,
             min_it=0, max_it=1)
    g.update(kw)
    return g


def forced_groups(draw, what, names, dests):
    """Shapes the random draw reaches rarely or never; -> list of groups."""
    K = st.integers(1, 9)
    d0, d1 = dests[0], dests[-1]
    if what == 'conv_multi':
        # converged() of several equations on (if possible) two destinations
        # is aggregated without short circuit; TC converges after a number
        # of calls, TN/TI use the inherited converged()
        eqs = [_eq('TR', d0, None, draw(K)),
               _eq('TLR', d1, list(names), draw(K)),
               _eq('TC', d0, None, draw(st.integers(1, 3))),
               _eq('TRO', d1, None, draw(K)),
               _eq('TI', d1, None, draw(K))]
        eqs = list(draw(st.permutations(eqs)))
        mn = draw(st.integers(0, 3))
        return [_leaf(eqs, iterate=True, min_it=mn,
                      max_it=draw(st.integers(max(2, mn), 5)),
                      cond=draw(st.sampled_from([None, None, 'true',
                                                 't>0.5'])),
                      pre=draw(st.booleans()), post=draw(st.booleans()))]
    if what == 'iter_nnps':
        # the neighbours are refreshed inside every pass of an iterated
        # group whose equations move the particles and read the lists
        mn = draw(st.integers(1, 2))
        it = _leaf([_eq(draw(st.sampled_from(['TL', 'TA'])), d0,
                        list(names), draw(K)),
                    _eq('TNudgeBig', d0, None, 1),
                    _eq('TR', d0, None, draw(K))],
                   iterate=True, min_it=mn,
                   max_it=draw(st.integers(2, 4)), update_nnps=True)
        dep = _leaf([_eq('TL', d0, list(names), draw(K))])
        return [it, dep]
    if what == 'parent_iter':
        # iterated parent: converged() of the equations of every sub-group,
        # a sub-group with its own condition / real flag / index range
        subs = [_leaf([_eq('TI', d0, None, draw(K)),
                       _eq('TR', d0, None, draw(K))],
                      cond=draw(st.sampled_from([None, 't>0.5', 'false']))),
                _leaf([_eq('TL', d1, list(names), draw(K)),
                       _eq('TC', d1, None, draw(st.integers(1, 3)))],
                      pre=True, post=draw(st.booleans())),
                _leaf([_eq('TLR', d0, list(names), draw(K))],
                      real=False,
                      start=draw(st.sampled_from([1, 'istart'])),
                      stop=draw(st.sampled_from([None, 'nstop'])))]
        mn = draw(st.integers(0, 2))
        return [dict(kind='parent', subs=subs,
                     cond=draw(st.sampled_from([None, None, 'true'])),
                     pre=draw(st.booleans()), post=draw(st.booleans()),
                     update_nnps=draw(st.booleans()), iterate=True,
                     min_it=mn, max_it=draw(st.integers(max(2, mn), 4)))]
    if what == 'nosrc':
        src = [names[-1]]
        return [
            # loop of equations without sources next to a source loop
            _leaf([_eq('TLN', d0, None, draw(K)),
                   _eq('TL', d0, list(names), draw(K)),
                   _eq('TLN', d0, None, draw(K)),
                   _eq('TPYO', d0, None, draw(K)),
                   _eq('TP', d0, None, draw(K))],
                  real=draw(st.booleans())),
            # only reduce; no hook at all (pre/post still run); only
            # initialize_pair / only py_initialize
            _leaf([_eq('TRO', d1, None, draw(K))]),
            _leaf([_eq('TN', d0, None, draw(K))], pre=True, post=True),
            _leaf([_eq('TPO', d1, src, draw(K)),
                   _eq('TPYO', d1, None, draw(K))]),
            _leaf([_eq('TLN', d1, None, draw(K))], stop='nstop')]
    if what == 'named_idx':
        # start from a constant, stop from a property; the documented
        # "ghosts only" idiom start_idx=<number of real particles>,
        # real=False
        return [_leaf([_eq('TI', d0, None, draw(K)),
                       _eq('TPYO', d0, None, draw(K)),
                       _eq('TL', d0, list(names), draw(K))],
                      start='cstart', stop='pstop'),
                _leaf([_eq('TIL', d1, list(names), draw(K)),
                       _eq('TPY', d1, None, draw(K))],
                      real=False, start='istart')]
    raise ValueError(what)


@st.composite
def program_strategy(draw, force_periodic=False, force=()):
    dim = 2 if force_periodic else draw(st.sampled_from([1, 2, 2, 3]))
    kernel = draw(st.sampled_from(KERNELS))
    if kernel == 'WendlandQuintic' and dim == 1:
        kernel = 'CubicSpline'
    narr = draw(st.sampled_from([1, 2, 2, 3]))
    if 'conv_multi' in force or 'parent_iter' in force:
        # these shapes are about two destinations
        narr = max(narr, 2)
    names = ['a%d' % i for i in range(narr)]
    # the last array of a 3-array program may be empty in some data sets
    # and is therefore never a destination
    dests = names[:2] if narr == 3 else names
    groups = []
    if 'flat' in force:
        # a plain list of equations (no Group objects): one default group
        eqs = draw(st.lists(eq_strategy(names, dests), min_size=3,
                            max_size=7))
        return dict(dim=dim, kernel=kernel, names=names, flat=True,
                    groups=[_leaf(eqs)], periodic=False)
    for _ in range(draw(st.integers(2, 6))):
        if draw(st.integers(0, 3)) == 0:
            subs = draw(st.lists(leaf_strategy(names, dests,
                                               allow_iter=False,
                                               allow_empty=True),
                                 min_size=1, max_size=3))
            for s in subs:
                # nudges only where the neighbours are refreshed at once
                if not s['update_nnps']:
                    s['eqs'] = [e for e in s['eqs']
                                if e['cls'] != 'TNudge'] or s['eqs'][:1]
            g = dict(kind='parent', subs=subs,
                     cond=draw(st.sampled_from([None, None, 'true', 'false',
                                                't>0.5'])),
                     pre=draw(st.booleans()), post=draw(st.booleans()),
                     update_nnps=draw(st.sampled_from([False, True])),
                     iterate=False, min_it=0, max_it=1)
            if draw(st.integers(0, 2)) == 0:
                g['iterate'] = True
                g['min_it'] = draw(st.integers(0, 2))
                g['max_it'] = draw(st.integers(max(1, g['min_it']), 4))
                for s in subs:
                    # the convergence expression of an empty sub-group is
                    # empty (generated code does not compile): not combined
                    if not s['eqs']:
                        s['eqs'] = [_eq('TI', dests[0], None,
                                        draw(st.integers(1, 9)))]
                if not any(e['cls'] in CONVERGING for s in subs
                           for e in s['eqs']):
                    subs[0]['eqs'].append(dict(
                        cls='TR', dest=subs[0]['eqs'][0]['dest'],
                        sources=None, k=draw(st.integers(1, 9))))
            groups.append(g)
        else:
            groups.append(draw(leaf_strategy(names, dests)))
    if draw(st.integers(0, 2)) > 0:
        # a group that moves particles and refreshes the neighbours,
        # followed by a group whose result depends on the neighbour lists
        d = dests[0]
        pos = draw(st.integers(0, len(groups) - 1))
        nudge = dict(kind='leaf',
                     eqs=[dict(cls='TP', dest=d, sources=None,
                               k=draw(st.integers(1, 9))),
                          dict(cls='TNudge', dest=d, sources=None, k=1)],
                     real=True, start=0, stop=None, cond=None, pre=False,
                     post=False, update_nnps=True, iterate=False, min_it=0,
                     max_it=1)
        dep = dict(kind='leaf',
                   eqs=[dict(cls=draw(st.sampled_from(['TL', 'TA'])),
                             dest=d, sources=list(names),
                             k=draw(st.integers(1, 9)))],
                   real=True, start=0, stop=None, cond=None, pre=False,
                   post=False, update_nnps=False, iterate=False, min_it=0,
                   max_it=1)
        groups[pos:pos] = [nudge, dep]
    if narr >= 2 and draw(st.integers(0, 1)) == 0:
        # per-source hooks: two equations of one destination with
        # initialize_pair that list different sources (each must run for its
        # own sources only, with that source's arrays)
        d = dests[draw(st.integers(0, len(dests) - 1))]
        s0, s1 = names[0], names[1]
        eqs = [dict(cls='TPA', dest=d, sources=[s0],
                    k=draw(st.integers(1, 9))),
               dict(cls='TPA', dest=d, sources=[s1],
                    k=draw(st.integers(1, 9)))]
        if draw(st.booleans()):
            eqs.insert(draw(st.integers(0, 2)),
                       dict(cls='TL', dest=d, sources=list(names),
                            k=draw(st.integers(1, 9))))
        groups.insert(draw(st.integers(0, len(groups))), dict(
            kind='leaf', eqs=eqs, real=True, start=0, stop=None, cond=None,
            pre=False, post=False, update_nnps=False, iterate=False,
            min_it=0, max_it=1))
    for what in force:
        fg = forced_groups(draw, what, names, dests)
        pos = draw(st.integers(0, len(groups)))
        groups[pos:pos] = fg
    periodic = force_periodic or (dim == 2 and
                                  draw(st.integers(0, 2)) == 0)
    if periodic is True and not force_periodic:
        # kind of domain: periodic box, mirror walls, periodic x + mirror y
        periodic = draw(st.sampled_from([True, True, 'mirror', 'mixed']))
    if periodic in ('mirror', 'mixed'):
        # between mirror walls particles stay inside the box: small moves
        for g in groups:
            for l in (g['subs'] if g['kind'] == 'parent' else [g]):
                for e in l['eqs']:
                    if e['cls'] == 'TNudgeBig':
                        e['cls'] = 'TNudge'
    return dict(dim=dim, kernel=kernel, names=names, groups=groups,
                periodic=periodic)


def all_leaves(prog):
    for g in prog['groups']:
        if g['kind'] == 'parent':
            for s_ in g['subs']:
                yield s_
        else:
            yield g


def size_limits(prog):
    """-> {array: (smallest defined size, may be empty)}.  An integer
    stop_idx beyond the array, a property-named index on an empty array
    (there is no first element) and element 0 of an empty array have no
    defined meaning; sizes are constructed inside the defined range."""
    lim = dict((nm, [0, True, True]) for nm in prog['names'])
    for l in all_leaves(prog):
        for e in l['eqs']:
            d = lim[e['dest']]
            if isinstance(l['stop'], int):
                d[0] = max(d[0], l['stop'])
            if l['start'] in ('istart', 'pstop') or \
                    l['stop'] in ('istart', 'pstop'):
                d[0] = max(d[0], 1)
                d[1] = False
            if e['cls'] == 'TLR':
                # reduce takes the maximum of a property over the real
                # particles: there must be one
                d[0] = max(d[0], 1)
                d[1] = False
                d[2] = False
            if e['cls'] == 'TPA':
                for s_ in e['sources'] or ():
                    lim[s_][0] = max(lim[s_][0], 1)
                    lim[s_][1] = False
    return lim


@st.composite
def data_strategy(draw, prog, big=False):
    dim = prog['dim']
    names = prog['names']
    per = prog.get('periodic', False)
    # OpenMP shards: some data sets are large enough for every thread to get
    # destination particles (the default schedule hands out chunks of 64)
    big = big and not per and draw(st.booleans())
    # periodic programs: box [0, 4)^2, ghosts are created by the domain
    # manager at every update_domain (update_nnps), none are static
    L = 4.0 if per else draw(st.sampled_from([1.0, 1.5, 2.5]))
    if big:
        L = {1: 24.0, 2: 8.0, 3: 4.0}[dim]
    lim = size_limits(prog)
    kinds = []
    for i, nm in enumerate(names):
        lo, may_empty, may_ghost_only = lim[nm]
        ks = ['normal'] * 5
        if not big and (i > 0 or len(names) > 1):
            if may_empty:
                ks += ['empty', 'empty'] if len(names) == 3 and i == 2 \
                    else ['empty']
            if lo <= 3:
                ks += ['tiny']
            if not per and may_ghost_only:
                ks += ['ghost_only']
        kinds.append(draw(st.sampled_from(ks)))
    if all(k in ('empty', 'tiny') for k in kinds):
        # the neighbour search needs a few particles somewhere
        kinds[0] = 'normal'
    arrays = []
    for i, nm in enumerate(names):
        lo = lim[nm][0]
        kind = kinds[i]
        if big and i == 0:
            n = draw(st.integers(150, 260))
        elif kind == 'empty':
            n = 0
        elif kind == 'tiny':
            n = draw(st.integers(max(lo, 1), 3))
        else:
            n = draw(st.integers(max(4, lo), 12))
        if kind == 'ghost_only':
            nghost = n
        elif big and i == 0:
            nghost = draw(st.integers(0, 70))
        else:
            nghost = draw(st.integers(0, max(0, n - 4))) if n > 4 and \
                draw(st.booleans()) and not per else 0
        grid = 1023 if big else 63
        coords = []
        for a in range(3):
            if a < dim:
                coords.append([draw(st.integers(0, grid)) / (grid + 1.0) * L
                               for _ in range(n)])
            else:
                coords.append([0.0] * n)
        hk = draw(st.sampled_from(['const', 'var']))
        h0 = 0.3 if per else draw(st.sampled_from([0.3, 0.45, 0.6]))
        hs = [h0 if hk == 'const' else
              h0 * draw(st.sampled_from([0.75, 1.0, 1.25]))
              for _ in range(n)]
        nreal = n - nghost
        arrays.append(dict(
            name=nm, n=n, nghost=nghost, kind=kind,
            props=dict(
                x=dict(data=coords[0]), y=dict(data=coords[1]),
                z=dict(data=coords[2]), h=dict(data=hs),
                q=dict(data=[draw(st.integers(-8, 8)) / 4.0
                             for _ in range(n)]),
                tr=dict(type='long',
                        data=[draw(st.integers(0, 1000002))
                              for _ in range(n)]),
                w0=dict(type='long',
                        data=[draw(st.integers(0, 50)) for _ in range(n)]),
                # the first element is the index; it is the number of real
                # particles in some data sets (the documented "ghosts only"
                # range with real=False)
                istart=dict(type='int',
                            data=[draw(st.sampled_from(
                                [nreal, draw(st.integers(0, nreal))]))] +
                            [0] * (n - 1) if n else []),
                pstop=dict(type='int',
                           data=[draw(st.integers(0, n))] +
                           [0] * (n - 1) if n else []),
            ),
            constants=dict(
                nstop=dict(type='long',
                           data=[draw(st.integers(0, n))]),
                cstart=dict(type='long',
                            data=[draw(st.integers(0, nreal))]),
                cst=dict(data=[draw(st.integers(0, 5)) * 1.0]),
            )))
        if per in ('mirror', 'mixed'):
            # mirror walls reflect the velocity of the image particles: the
            # domain manager requires u, v, w
            for vn in ('u', 'v', 'w'):
                arrays[-1]['props'][vn] = dict(
                    data=[draw(st.integers(-4, 4)) / 4.0 for _ in range(n)])
    data = dict(arrays=arrays, t=draw(st.integers(0, 8)) / 8.0,
                dt=draw(st.integers(1, 8)) / 64.0)
    if draw(st.integers(0, 2)) == 0:
        # a second evaluation on the state the first one left, at another
        # time (the evaluator object lives across calls)
        data['t2'] = draw(st.integers(0, 8)) / 8.0
        data['dt2'] = draw(st.integers(1, 8)) / 64.0
    return data


# ----------------------------------------------------------- construction
def build_groups(prog, arrays, log, tag0):
    """Build Group objects for one side (compiled or reference)."""
    from pysph.sph.equation import Group
    from checks import c03_eqs as E
    byname = dict((a.name, a) for a in arrays)
    eq_objs = []
    counter = [0]

    def mk_eq(e):
        cls = getattr(E, e['cls'])
        if e['cls'] == 'TNudge' and prog['dim'] == 1:
            # particles of a 1D search stay on their line
            cls = E.TNudgeX
        counter[0] += 1
        o = cls(dest=e['dest'], sources=e['sources'], k=e['k'],
                tag=tag0 + counter[0])
        eq_objs.append(o)
        return o

    def callbacks(g, gname):
        cond = None
        if g['cond'] == 'true':
            def cond(t, dt, _n=gname):
                log.append(('condition', _n, float(t), float(dt)))
                return True
        elif g['cond'] == 'false':
            def cond(t, dt, _n=gname):
                log.append(('condition', _n, float(t), float(dt)))
                return False
        elif g['cond'] == 't>0.5':
            def cond(t, dt, _n=gname):
                log.append(('condition', _n, float(t), float(dt)))
                return t > 0.5
        pre = post = None
        if g['pre']:
            def pre(_n=gname):
                log.append(('pre', _n))
                a = arrays[0]
                a.get_carray('cst').get_npy_array()[0] += 1.0
                tr = a.get_carray('tr').get_npy_array()
                if len(tr):
                    tr[0] = (tr[0] * 31 + 17) % 1000003
        if g['post']:
            def post(_n=gname):
                log.append(('post', _n))
                a = arrays[-1]
                tr = a.get_carray('tr').get_npy_array()
                if len(tr):
                    tr[-1] = (tr[-1] * 31 + 19) % 1000003
        return cond, pre, post

    def mk_leaf(g, gname):
        cond, pre, post = callbacks(g, gname)
        return Group(equations=[mk_eq(e) for e in g['eqs']], real=g['real'],
                     update_nnps=g['update_nnps'], iterate=g['iterate'],
                     max_iterations=g['max_it'], min_iterations=g['min_it'],
                     pre=pre, post=post, condition=cond,
                     start_idx=g['start'], stop_idx=g['stop'],
                     name='G' + gname)
    out = []
    if prog.get('flat'):
        # a plain list of equations, as the documentation's first examples
        return [mk_eq(e) for e in prog['groups'][0]['eqs']], eq_objs
    for i, g in enumerate(prog['groups']):
        if g['kind'] == 'leaf':
            out.append(mk_leaf(g, str(i)))
        else:
            cond, pre, post = callbacks(g, str(i))
            subs = [mk_leaf(s, '%d_%d' % (i, j))
                    for j, s in enumerate(g['subs'])]
            out.append(Group(equations=subs, update_nnps=g['update_nnps'],
                             iterate=g['iterate'],
                             max_iterations=g['max_it'],
                             min_iterations=g['min_it'], pre=pre, post=post,
                             condition=cond, name='G%d' % i))
    return out, eq_objs


def program_features(prog):
    feats = set()
    leaves = []
    if prog.get('flat'):
        feats.add('flat_list')
    for gi, g in enumerate(prog['groups']):
        if g['kind'] == 'parent':
            feats.add('subgroup')
            leaves += [(gi, s) for s in g['subs']]
            top = [g]
            if g['iterate']:
                feats.add('parent_iterate')
                conv = [any(e['cls'] in CONVERGING for e in s['eqs'])
                        for s in g['subs']]
                if sum(conv) >= 2:
                    feats.add('converged_multi_subgroup')
                if any(s['cond'] for s in g['subs']):
                    feats.add('sub_cond_in_iterated_parent')
                if g['update_nnps']:
                    feats.add('iter_update_nnps')
            for s in g['subs']:
                if not s['eqs']:
                    feats.add('empty_subgroup')
                if not s['real']:
                    feats.add('sub_real_false')
                if s['start'] != 0 or s['stop'] is not None:
                    feats.add('sub_start_stop')
        else:
            leaves.append((gi, g))
            top = [g]
            if g.get('excluded_empty_top'):
                feats.add('excluded:empty_top_group')
            if g['iterate']:
                conv = [e for e in g['eqs'] if e['cls'] in CONVERGING]
                if len(conv) >= 2:
                    feats.add('converged_multi')
                if len(set(e['dest'] for e in conv)) >= 2:
                    feats.add('converged_multi_dest')
                if g['update_nnps']:
                    feats.add('iter_update_nnps')
                if g['cond']:
                    feats.add('cond_iterate')
        for x in top:
            if x['iterate'] and x['min_it'] >= 1:
                feats.add('iterate_min>=1')
            if x['cond'] == 'false':
                feats.add('false_condition')
            if x['pre'] or x['post']:
                feats.add('pre_post')
            if x['update_nnps'] and gi < len(prog['groups']) - 1:
                feats.add('update_nnps_then_group')
    for gi, l in leaves:
        if len(set(e['dest'] for e in l['eqs'])) >= 2:
            feats.add('multi_dest')
        if l['start'] != 0 or l['stop'] is not None:
            feats.add('start_stop')
        if isinstance(l['start'], str) or isinstance(l['stop'], str):
            feats.add('idx_by_name')
        if l['start'] == 'cstart':
            feats.add('idx_start_constant')
        if l['stop'] == 'pstop':
            feats.add('idx_stop_property')
        if not l['real'] and l['stop'] is not None:
            feats.add('real_false_with_stop')
        dl = {}
        for e in l['eqs']:
            dl.setdefault(e['dest'], []).append(e)
        for d, es in dl.items():
            hs = set(h for e in es for h in HOOKS[e['cls']])
            if any(e['cls'] in ('TLN',) and e['sources'] is None
                   for e in es):
                feats.add('hook:no_source_loop')
            if hs == {'reduce'}:
                feats.add('hook:only_reduce')
            if hs == {'py_initialize'}:
                feats.add('hook:only_py_initialize')
            if not hs:
                feats.add('hook:none')
            if any(e['sources'] for e in es) and not \
                    (hs & {'loop', 'loop_all'}):
                feats.add('sources_without_loop')
        if not l['real']:
            feats.add('real_false')
        if l['cond'] == 'false':
            feats.add('false_condition')
        if l['pre'] or l['post']:
            feats.add('pre_post')
        if l['update_nnps'] and gi < len(prog['groups']) - 1:
            feats.add('update_nnps_then_group')
        pi = [(e['dest'], tuple(sorted(e['sources'] or ())))
              for e in l['eqs'] if e['cls'] == 'TPA']
        if any(a[0] == b[0] and a[1] != b[1] for a in pi for b in pi):
            feats.add('pair_init_mixed_sources')
        for e in l['eqs']:
            if e['sources'] and len(e['sources']) >= 2:
                feats.add('multi_source')
            for h in HOOKS[e['cls']]:
                if h in ('loop_all', 'initialize_pair', 'reduce',
                         'py_initialize'):
                    feats.add('hook:' + h)
    return feats


class Side(object):
    pass


def make_domain(prog):
    if not prog.get('periodic'):
        return None
    from pysph.base.nnps import DomainManager
    if prog['periodic'] == 'mirror':
        return DomainManager(xmin=0.0, xmax=4.0, ymin=0.0, ymax=4.0,
                             mirror_in_x=True, mirror_in_y=True)
    if prog['periodic'] == 'mixed':
        return DomainManager(xmin=0.0, xmax=4.0, ymin=0.0, ymax=4.0,
                             periodic_in_x=True, mirror_in_y=True)
    return DomainManager(xmin=0.0, xmax=4.0, ymin=0.0, ymax=4.0,
                         periodic_in_x=True, periodic_in_y=True)


def setup_program(prog, first_data):
    """Compile the program once; returns the two sides."""
    from pysph.base import kernels
    from vlib import jit
    from vlib.refeval import RefEval
    from checks import c03_eqs as E
    E.LOGS.clear()
    K = getattr(kernels, prog['kernel'])
    c = Side()
    c.arrays = jit.make_arrays(first_data['arrays'])
    c.log = []
    c.groups, c.eqs = build_groups(prog, c.arrays, c.log, 0)
    c.kernel = K(dim=prog['dim'])
    c.ev = jit.compiled_evaluator(c.arrays, c.groups, c.kernel, prog['dim'],
                                  domain=make_domain(prog))
    r = Side()
    r.arrays = jit.make_arrays(first_data['arrays'])
    r.log = []
    r.groups, r.eqs = build_groups(prog, r.arrays, r.log, 100000)
    r.kernel = K(dim=prog['dim'])
    r.nnps = jit.sorted_nnps(prog['dim'], r.arrays, r.kernel.radius_scale,
                             domain=make_domain(prog))
    r.ev = RefEval(r.arrays, r.groups, r.kernel, r.nnps)
    return c, r


def reset_attrs(c, r):
    for ce, re_ in zip(c.eqs, r.eqs):
        for k in ('rsum', 'ncalls', 'nreduce'):
            if hasattr(re_, k):
                setattr(re_, k, 0.0)
                setattr(getattr(c.ev.func_eval.c_acceleration_eval,
                                ce.var_name), k, 0.0)


def run_data(prog, sides, data):
    """Execute one data set on both sides; -> (failures, labels, nontriv)."""
    from vlib import jit
    from vlib.refeval import RefUndefined
    from checks import c03_eqs as E
    c, r = sides
    labels = []
    fails = []
    feats = program_features(prog)
    has_ghost = any(a['nghost'] > 0 for a in data['arrays'])
    if 'real_false' in feats and has_ghost:
        feats.add('real_false_ghosts')
    feats.discard('real_false')
    if prog.get('periodic'):
        feats.add('periodic_ghosts' if prog['periodic'] is True
                  else 'mirror_ghosts')
    dest_names = set(e['dest'] for l in all_leaves(prog) for e in l['eqs'])
    for a in data['arrays']:
        if a['name'] in dest_names:
            if a['n'] == 0:
                feats.add('empty_dest')
            elif a['nghost'] == a['n']:
                feats.add('ghost_only_dest')
            elif a['n'] <= 3:
                feats.add('tiny_dest')
        if a['n'] >= 150:
            feats.add('large_arrays')
    for l in all_leaves(prog):
        if l['start'] == 'istart' and not l['real'] and l['stop'] is None:
            for a in data['arrays']:
                if a['nghost'] and a['props']['istart']['data'][0] == \
                        a['n'] - a['nghost'] and \
                        any(e['dest'] == a['name'] for e in l['eqs']):
                    feats.add('ghosts_only_range')
    for l in all_leaves(prog):
        for e in l['eqs']:
            if 'py_initialize' in HOOKS[e['cls']]:
                for a in data['arrays']:
                    if a['name'] == e['dest'] and a['nghost'] == a['n']:
                        # py_initialize is called for a destination without
                        # real particles too
                        feats.add('py_initialize_no_real')
    if 't2' in data:
        feats.add('second_call')
    labels += sorted(feats)
    jit.load_data(c.arrays, data['arrays'])
    jit.load_data(r.arrays, data['arrays'])
    c.ev.update()
    r.nnps.update_domain()
    r.nnps.update()
    reset_attrs(c, r)
    del c.log[:]
    del r.log[:]
    E.LOGS.clear()
    r.ev.pair_calls = 0
    r.ev.iterations.clear()
    calls = [(data['t'], data['dt'])]
    if 't2' in data:
        calls.append((data['t2'], data['dt2']))
    for ci, (t, dt) in enumerate(calls):
        try:
            r.ev.compute(t, dt)
        except RefUndefined as ex:
            why = ' '.join(str(ex).replace('(', ' ').split()[:3])
            return [], labels + ['ref_undefined',
                                 'ref_undefined:' + why], False
        try:
            c.ev.evaluate(t, dt)
        except Exception as ex:
            fails.append(Failure('AccelerationEval', 'exception', repr(ex)))
            return fails, labels, False
        compare_sides(c, r, fails, E, jit)
        if fails:
            break
    for gi, g in enumerate(prog['groups']):
        if g['iterate'] and not prog.get('flat'):
            n = r.ev.iterations.get('G%d' % gi)
            if n is None:
                continue
            if n == g['max_it'] and n > 1:
                labels.append('iter_hit_max')
            elif n < g['max_it']:
                labels.append('iter_converged_early')
            if n == g['min_it'] and n > 1:
                labels.append('iter_stopped_at_min')
    nontrivial = len(prog['groups']) >= 2 and bool(feats & {
        'multi_dest', 'subgroup', 'iterate_min>=1', 'start_stop',
        'real_false_ghosts', 'false_condition', 'update_nnps_then_group'}) \
        and r.ev.pair_calls > 0
    return fails, labels, nontrivial


def compare_sides(c, r, fails, E, jit):
    diffs = jit.compare_arrays(r.arrays, c.arrays, bitwise=True)
    if diffs:
        d = diffs[0]
        fails.append(Failure(
            'AccelerationEval', 'state_differs',
            'array %s property %s index %s: reference %s, compiled %s (%s)'
            % d, dict(prop=d[1] if d[1] in ('tr', 'q', 'x', 'y', 'cst')
                      else 'other')))
    for ce, re_ in zip(c.eqs, r.eqs):
        ra = jit.public_numeric_attrs(re_)
        ca = jit.compiled_equation_attrs(c.ev.func_eval, ce)
        for k, v in ra.items():
            if k in ca and ca[k] != v:
                fails.append(Failure(
                    'AccelerationEval', 'equation_attribute',
                    '%s.%s: reference %r, compiled %r' % (
                        ce.var_name, k, v, ca[k]),
                    dict(attr=k)))
                break
    if c.log != r.log:
        fails.append(Failure('AccelerationEval', 'callback_log',
                             'reference %r, compiled %r' % (r.log[:12],
                                                            c.log[:12])))
    lc = dict((k, v) for k, v in E.LOGS.items() if k < 100000)
    lr = dict((k - 100000, v) for k, v in E.LOGS.items() if k >= 100000)
    if lc != lr:
        fails.append(Failure('AccelerationEval', 'py_initialize_log',
                             'reference %r, compiled %r' % (lr, lc)))


# ------------------------------------------------------------ entry points
def plan(ctx):
    if ctx['tier'] == 'quick':
        nprog, ndata = 1, 12
        k = 16
    else:
        nprog, ndata = 25, 40
        k = 16
    # forced shapes per shard: every run has each of them serial and (all
    # but the flat list) under OpenMP
    force = [['conv_multi', 'named_idx'], ['nosrc'], ['iter_nnps'],
             ['conv_multi'], ['parent_iter'], ['nosrc', 'iter_nnps'],
             ['parent_iter'], ['nosrc'], ['flat'],
             ['conv_multi', 'parent_iter'], ['iter_nnps', 'named_idx'],
             ['named_idx'], ['parent_iter', 'nosrc'],
             ['nosrc', 'conv_multi'], ['named_idx', 'iter_nnps'],
             ['parent_iter', 'iter_nnps']]
    return [dict(name='prog-%02d%s' % (i, '-omp' if i % 4 == 3 else ''),
                 nprog=nprog, ndata=ndata,
                 periodic=[True, 'mirror', 'mixed'][(i // 5) % 3]
                 if i % 5 == 1 else False,
                 omp=[0, 0, 0, 4][i % 4] if i % 8 != 7 else 16,
                 force=force[i % len(force)])
            for i in range(k)]


def run_shard(spec, ctx):
    stats = Stats()
    if spec.get('omp'):
        # OpenMP build of the same programs (per-thread scratch vectors,
        # parallel ranges); hooks only write their own destination particle,
        # so the result must not depend on the schedule
        from compyle.config import get_config
        get_config().use_openmp = True
        stats.label('openmp')
    stats.extra['programs'] = 0
    stats.extra['jit_compiles'] = 0
    calls = [0]

    @seed(derive_seed(ctx.seed, 'C03', spec['name']))
    @settings(max_examples=spec['nprog'] + 1, database=None, deadline=None,
              phases=[Phase.generate], derandomize=False,
              suppress_health_check=list(HealthCheck))
    @given(st.data())
    def outer(dat):
        prog = dat.draw(program_strategy(spec.get('periodic') or False,
                                         tuple(spec.get('force') or ())))
        first = dat.draw(data_strategy(prog))
        calls[0] += 1
        if calls[0] == 1:
            # Hypothesis always starts with the all-minimal example, the
            # same in every shard: not worth a compile
            return
        ctx.journal(dict(program=prog, data=first))
        try:
            sides = setup_program(prog, first)
        except SystemExit:
            # compyle's ExtModule exits when the generated Cython does not
            # compile: the documented group tree was not translated
            f = Failure('SPHCompiler', 'compile_failed',
                        'generated code for a documented group tree does '
                        'not compile', dict(feature=compile_feature(prog)))
            if f.sig() not in stats.masked:
                stats.masked.add(f.sig())
                stats.failures.append(f.as_dict(dict(program=prog,
                                                     data=first)))
            stats.evaluations += 1
            return
        stats.extra['programs'] += 1
        stats.extra['jit_compiles'] += 1

        def execute(data):
            fails, labels, nt = run_data(prog, sides, data)
            for f in fails:
                f.klass.setdefault('feature', '')
            return Outcome(fails, labels, nt)
        inner = Stats()
        search(data_strategy(prog, big=bool(spec.get('omp'))), execute,
               derive_seed(ctx.seed, 'C03d', spec['name'],
                           stats.extra['programs']),
               spec['ndata'], inner, shrink=True)
        # merge, attaching the program to every case
        stats.evaluations += inner.evaluations
        for h in inner.nontrivial:
            stats.nontrivial.add(case_hash([canon(prog), h]))
        for k, v in inner.labels.items():
            stats.label(k, v)
        for s in inner.samples[:1]:
            if len(stats.samples) < 2:
                stats.samples.append(dict(program=prog, data=s))
        for f in inner.failures:
            f['case'] = dict(program=prog, data=f['case'])
            stats.failures.append(f)
        stats.skipped += inner.skipped
    outer()
    return stats.result()


def compile_feature(prog):
    for g in prog['groups']:
        if g['kind'] == 'parent' and (g['cond'] or g['iterate']):
            return 'subgroups_in_conditional_or_iterated_parent'
    return 'other'


def run_case(case, component, ctx):
    prog, data = case['program'], case['data']
    try:
        sides = setup_program(prog, data)
    except SystemExit:
        return [Failure('SPHCompiler', 'compile_failed',
                        'generated code for a documented group tree does '
                        'not compile',
                        dict(feature=compile_feature(prog))).as_dict(case)]
    fails, _, _ = run_data(prog, sides, data)
    return [f.as_dict(case) for f in fails]
