"""User-defined integrators, steppers and equations for C04 (a real module
file, because the code generator reads their source with inspect)."""
from pysph.sph.equation import Equation
from pysph.sph.integrator import Integrator
from pysph.sph.integrator_step import IntegratorStep

PYLOG = []


# ----------------------------------------------------------------- equations
class AccFromPos(Equation):
    """Arithmetic-only accelerations that depend on the current positions
    and velocities of the neighbours (so stale neighbours or stale ghosts
    are visible) and on t, dt."""
    def __init__(self, dest, sources, c=1.0):
        self.c = c
        super(AccFromPos, self).__init__(dest, sources)

    def initialize(self, d_idx, d_au, d_av, d_aw, d_arho, d_ax, d_ay, d_az):
        d_au[d_idx] = 0.0
        d_av[d_idx] = 0.0
        d_aw[d_idx] = 0.0
        d_arho[d_idx] = 0.0
        d_ax[d_idx] = 0.0
        d_ay[d_idx] = 0.0
        d_az[d_idx] = 0.0

    def loop(self, d_idx, s_idx, d_au, d_av, d_aw, d_arho, d_ax, d_ay, d_az,
             s_m, XIJ, VIJ, R2IJ, t, dt):
        d_au[d_idx] += -self.c*s_m[s_idx]*XIJ[0]*0.125
        d_av[d_idx] += -self.c*s_m[s_idx]*XIJ[1]*0.125
        d_aw[d_idx] += -self.c*s_m[s_idx]*XIJ[2]*0.125
        d_arho[d_idx] += s_m[s_idx]*(VIJ[0]*XIJ[0] + VIJ[1]*XIJ[1])*0.0625
        d_ax[d_idx] += 0.03125*VIJ[0] + t*0.0078125
        d_ay[d_idx] += 0.03125*VIJ[1] - dt*0.015625
        d_az[d_idx] += 0.03125*VIJ[2]*R2IJ


class NbrTracer(Equation):
    """Integer tracer of the neighbour lists seen at evaluation time."""
    def __init__(self, dest, sources, k=1):
        self.k = k
        super(NbrTracer, self).__init__(dest, sources)

    def loop(self, d_idx, s_idx, d_tr, s_nw):
        d_tr[d_idx] = (d_tr[d_idx]*31 + s_idx*5 + s_nw[s_idx] +
                       self.k*7 + 4) % 1000003


class AccSecond(Equation):
    """Second equation set (index 1)."""
    def __init__(self, dest, sources, c=1.0):
        self.c = c
        super(AccSecond, self).__init__(dest, sources)

    def initialize(self, d_idx, d_au, d_av):
        d_au[d_idx] = 0.25*d_au[d_idx]
        d_av[d_idx] = 0.25*d_av[d_idx]

    def loop(self, d_idx, s_idx, d_au, d_av, s_m, XIJ, t):
        d_au[d_idx] += self.c*s_m[s_idx]*XIJ[1]*0.0625 + t*0.03125
        d_av[d_idx] += -self.c*s_m[s_idx]*XIJ[0]*0.0625


# ------------------------------------------------------------------ steppers
class SA(IntegratorStep):
    """All stages, uses t and dt; arithmetic only."""
    def initialize(self, d_idx, d_x0, d_y0, d_z0, d_x, d_y, d_z, d_u0, d_v0,
                   d_u, d_v, d_tr):
        d_x0[d_idx] = d_x[d_idx]
        d_y0[d_idx] = d_y[d_idx]
        d_z0[d_idx] = d_z[d_idx]
        d_u0[d_idx] = d_u[d_idx]
        d_v0[d_idx] = d_v[d_idx]
        d_tr[d_idx] = (d_tr[d_idx]*31 + 1) % 1000003

    def stage1(self, d_idx, d_x, d_y, d_z, d_u, d_v, d_w, d_au, d_av, d_aw,
               d_ax, d_ay, d_az, d_tr, d_q, t, dt):
        d_u[d_idx] += 0.5*dt*d_au[d_idx]
        d_v[d_idx] += 0.5*dt*d_av[d_idx]
        d_w[d_idx] += 0.5*dt*d_aw[d_idx]
        d_x[d_idx] += 0.5*dt*(d_u[d_idx] + d_ax[d_idx])
        d_y[d_idx] += 0.5*dt*(d_v[d_idx] + d_ay[d_idx])
        d_z[d_idx] += 0.5*dt*(d_w[d_idx] + d_az[d_idx])
        d_q[d_idx] = d_q[d_idx]*0.5 + t + 2.0*dt
        d_tr[d_idx] = (d_tr[d_idx]*31 + 2) % 1000003

    def stage2(self, d_idx, d_x, d_y, d_x0, d_y0, d_u, d_v, d_u0, d_v0, d_au,
               d_av, d_rho, d_arho, d_tr, d_q, t, dt):
        d_u[d_idx] = d_u0[d_idx] + dt*d_au[d_idx]
        d_v[d_idx] = d_v0[d_idx] + dt*d_av[d_idx]
        d_x[d_idx] = d_x0[d_idx] + dt*d_u[d_idx]
        d_y[d_idx] = d_y0[d_idx] + dt*d_v[d_idx]
        d_rho[d_idx] += dt*d_arho[d_idx]*0.125
        d_q[d_idx] = d_q[d_idx]*0.5 + 3.0*t - dt
        d_tr[d_idx] = (d_tr[d_idx]*31 + 3) % 1000003

    def stage3(self, d_idx, d_x, d_u, d_tr, d_q, t, dt):
        d_x[d_idx] += 0.25*dt*d_u[d_idx]
        d_q[d_idx] = d_q[d_idx]*0.5 + 5.0*t + dt
        d_tr[d_idx] = (d_tr[d_idx]*31 + 4) % 1000003

    def stage4(self, d_idx, d_y, d_v, d_tr, d_q, t, dt):
        d_y[d_idx] += 0.25*dt*d_v[d_idx]
        d_q[d_idx] = d_q[d_idx]*0.5 + 7.0*t + dt
        d_tr[d_idx] = (d_tr[d_idx]*31 + 5) % 1000003

    def stage5(self, d_idx, d_x, d_y, d_tr, d_q, t, dt):
        d_x[d_idx] += 0.0625*dt
        d_y[d_idx] -= 0.0625*dt
        d_q[d_idx] = d_q[d_idx]*0.5 + 11.0*t + dt
        d_tr[d_idx] = (d_tr[d_idx]*31 + 6) % 1000003


class SB(IntegratorStep):
    """py_stage hooks and only two stages; an instance attribute."""
    def __init__(self, fac=0.5):
        self.fac = fac

    def py_stage1(self, dst, t, dt):
        PYLOG.append(('py_stage1', dst.name, float(t), float(dt),
                      int(dst.get_number_of_particles(True))))
        tr = dst.get_carray('tr').get_npy_array()
        if len(tr) > 0:
            tr[0] = (tr[0]*31 + 8) % 1000003

    def py_stage2(self, dst, t, dt):
        PYLOG.append(('py_stage2', dst.name, float(t), float(dt),
                      int(dst.get_number_of_particles(True))))

    def stage1(self, d_idx, d_x, d_y, d_u, d_v, d_au, d_av, d_tr, dt):
        d_u[d_idx] += self.fac*dt*d_au[d_idx]
        d_v[d_idx] += self.fac*dt*d_av[d_idx]
        d_x[d_idx] += self.fac*dt*d_u[d_idx]
        d_y[d_idx] += self.fac*dt*d_v[d_idx]
        d_tr[d_idx] = (d_tr[d_idx]*31 + 12) % 1000003

    def stage2(self, d_idx, d_x, d_y, d_u, d_v, d_tr, d_q, t, dt):
        d_x[d_idx] += self.fac*dt*d_u[d_idx]
        d_y[d_idx] += self.fac*dt*d_v[d_idx]
        d_q[d_idx] = d_q[d_idx]*0.5 + t
        d_tr[d_idx] = (d_tr[d_idx]*31 + 13) % 1000003


class SC(IntegratorStep):
    """Only initialize and stage1 + a py_initialize-less hook set; does not
    move particles (a boundary)."""
    def initialize(self, d_idx, d_tr):
        d_tr[d_idx] = (d_tr[d_idx]*31 + 21) % 1000003

    def stage1(self, d_idx, d_tr, d_q, t, dt):
        d_q[d_idx] = d_q[d_idx]*0.5 + t - dt
        d_tr[d_idx] = (d_tr[d_idx]*31 + 22) % 1000003


class SE(IntegratorStep):
    """Moves particles by more than a neighbour cell inside one stage, so
    that the binning of the last neighbour update is visibly stale: an
    evaluation with update_nnps=False must see the stale binning, one with
    update_nnps=True the fresh one."""
    def initialize(self, d_idx, d_tr):
        d_tr[d_idx] = (d_tr[d_idx]*31 + 51) % 1000003

    def stage1(self, d_idx, d_x, d_y, d_tr, d_q, t, dt):
        if d_idx % 2 == 0:
            d_x[d_idx] += 1.25
        else:
            d_y[d_idx] -= 1.25
        d_q[d_idx] = d_q[d_idx]*0.5 + t + 3.0*dt
        d_tr[d_idx] = (d_tr[d_idx]*31 + 52) % 1000003

    def stage2(self, d_idx, d_x, d_y, d_u, d_v, d_tr, dt):
        d_x[d_idx] += dt*d_u[d_idx]
        d_y[d_idx] += dt*d_v[d_idx]
        d_tr[d_idx] = (d_tr[d_idx]*31 + 53) % 1000003


# --------------------------------------------------------------- integrators
class I1(Integrator):
    def one_timestep(self, t, dt):
        self.compute_accelerations()
        self.stage1()
        self.update_domain()
        self.do_post_stage(dt, 1)


class I2NoDomain(Integrator):
    def one_timestep(self, t, dt):
        self.initialize()
        self.compute_accelerations()
        self.stage1()
        self.do_post_stage(0.5*dt, 1)
        self.compute_accelerations(0, update_nnps=False)
        self.stage2()
        self.update_domain()
        self.do_post_stage(dt, 2)


class I3TwoSets(Integrator):
    def one_timestep(self, t, dt):
        self.initialize()
        self.stage1()
        self.update_domain()
        self.do_post_stage(0.25*dt, 1)
        self.compute_accelerations(0)
        self.stage2()
        self.update_domain()
        self.do_post_stage(0.75*dt, 2)
        self.compute_accelerations(1)
        self.stage3()
        self.update_domain()
        self.do_post_stage(dt, 3)


class I5(Integrator):
    def one_timestep(self, t, dt):
        self.initialize()
        self.compute_accelerations()
        self.stage1()
        self.do_post_stage(0.125*dt, 1)
        self.stage2()
        self.update_domain()
        self.do_post_stage(0.25*dt, 2)
        self.compute_accelerations(1, update_nnps=False)
        self.stage3()
        self.do_post_stage(0.5*dt, 3)
        self.compute_accelerations(0, True)
        self.stage4()
        self.update_domain()
        self.do_post_stage(0.75*dt, 4)
        self.stage5()
        self.update_domain()
        self.do_post_stage(dt, 5)


class I2Reversed(Integrator):
    """stage2 before stage1, post-stage numbering out of order."""
    def one_timestep(self, t, dt):
        self.stage2()
        self.do_post_stage(0.5*dt, 2)
        self.update_domain()
        self.compute_accelerations()
        self.initialize()
        self.stage1()
        self.update_domain()
        self.do_post_stage(dt, 1)


class SD(IntegratorStep):
    """py_stage1 changes the number of real particles (as an inlet/outlet or
    split/merge hook would): the stage must visit exactly the real particles
    present after the hook."""
    def py_stage1(self, dst, t, dt):
        n = dst.get_number_of_particles(True)
        if int(round(float(t)*64.0)) % 2 == 0 and n > 3:
            dst.remove_particles([n - 1])
        else:
            extra = dst.extract_particles([0])
            extra.x[:] = extra.x + 0.03125
            dst.append_parray(extra)
        PYLOG.append(('py_stage1', dst.name, float(t), float(dt),
                      int(dst.get_number_of_particles(True))))

    def stage1(self, d_idx, d_x, d_y, d_u, d_v, d_au, d_av, d_tr, d_q, t,
               dt):
        d_u[d_idx] += 0.5*dt*d_au[d_idx]
        d_v[d_idx] += 0.5*dt*d_av[d_idx]
        d_x[d_idx] += 0.5*dt*d_u[d_idx]
        d_y[d_idx] += 0.5*dt*d_v[d_idx]
        d_q[d_idx] = d_q[d_idx]*0.5 + t + dt
        d_tr[d_idx] = (d_tr[d_idx]*31 + 41) % 1000003


# ------------------------------------------------- added by the coverage audit
class AccThird(Equation):
    """Third equation set (index 2)."""
    def __init__(self, dest, sources, c=1.0):
        self.c = c
        super(AccThird, self).__init__(dest, sources)

    def initialize(self, d_idx, d_au, d_av):
        d_au[d_idx] = 0.5*d_au[d_idx]
        d_av[d_idx] = -0.5*d_av[d_idx]

    def loop(self, d_idx, s_idx, d_au, d_av, s_m, XIJ, dt):
        d_au[d_idx] += self.c*s_m[s_idx]*XIJ[0]*0.03125 - dt*0.25
        d_av[d_idx] += self.c*s_m[s_idx]*XIJ[1]*0.03125


class SF(IntegratorStep):
    """Constructor arguments (two instances of one class with different
    values), and a py_stage2 hook without a stage2 method: when the
    integrator calls stage2 this array gets the hook only."""
    def __init__(self, a=0.25, b=2.0):
        self.a = a
        self.b = b

    def initialize(self, d_idx, d_tr, d_x0, d_x):
        d_x0[d_idx] = d_x[d_idx]
        d_tr[d_idx] = (d_tr[d_idx]*31 + 61) % 1000003

    def stage1(self, d_idx, d_x, d_y, d_u, d_v, d_au, d_av, d_tr, d_q, t,
               dt):
        d_u[d_idx] += self.a*dt*d_au[d_idx]
        d_v[d_idx] += self.a*dt*d_av[d_idx]
        d_x[d_idx] += self.a*dt*d_u[d_idx]
        d_y[d_idx] += self.a*dt*d_v[d_idx]
        d_q[d_idx] = d_q[d_idx]*0.5 + self.b*t + dt
        d_tr[d_idx] = (d_tr[d_idx]*31 + 62) % 1000003

    def py_stage2(self, dst, t, dt):
        PYLOG.append(('py_stage2', dst.name, float(t), float(dt),
                      int(dst.get_number_of_particles(True))))
        tr = dst.get_carray('tr').get_npy_array()
        if len(tr) > 0:
            tr[-1] = (tr[-1]*31 + 63) % 1000003


class I3Keywords(Integrator):
    def one_timestep(self, t, dt):
        """Keyword forms of compute_accelerations; three equation sets; a
        docstring and comments inside the pasted source."""
        self.initialize()
        # set 1 first, by keyword
        self.compute_accelerations(index=1)
        self.stage1()
        self.do_post_stage(0.25*dt, 1)
        self.compute_accelerations(update_nnps=False)
        self.stage2()
        self.update_domain()
        self.do_post_stage(0.5*dt, 2)
        self.compute_accelerations(2, False)
        self.stage3()
        self.update_domain()
        self.compute_accelerations(index=2, update_nnps=True)
        self.do_post_stage(dt, 3)


class I4Loop(Integrator):
    def one_timestep(self, t, dt):
        # control flow, locals and expressions in t and dt are executed as
        # written
        self.initialize()
        half = 0.5*dt
        for i in range(2):
            self.compute_accelerations(0, i == 0)
            self.stage1()
            self.do_post_stage((i + 1)*0.25*dt, i + 1)
        if t > 0.75:
            self.stage2()
            self.update_domain()
        else:
            self.update_domain()
            self.stage2()
        self.do_post_stage(half +
                           0.5*dt, 3)


class I1Sub(I1):
    """Inherits one_timestep."""
