"""Toy equation classes for C20 (they live in a real file so that
inspect.getsource / the code generator can read them).

One class per precomputed pair symbol (the symbol is the *only* reason the
class needs x,y,z / h / u,v,w / rho), a class using all of them, classes
whose requirements are spread over every hook, a class using a constant, a
class that uses every property of a minimal array, and a filler equation that
is always complete.  Nothing here is ever compiled or executed by C20.
"""
from compyle.api import declare
from pysph.sph.equation import Equation
from pysph.sph.integrator_step import IntegratorStep


class C20Filler(Equation):
    """Always complete: every array built by the check has `c20fill`."""

    def initialize(self, d_idx, d_c20fill):
        d_c20fill[d_idx] = 0.0

    def loop(self, d_idx, s_idx, d_c20fill, s_c20fill):
        d_c20fill[d_idx] += s_c20fill[s_idx]


# ---------------------------------------------------------------- per symbol
class SymHIJ(Equation):
    def loop(self, d_idx, s_idx, d_q0, s_q1, HIJ):
        d_q0[d_idx] += s_q1[s_idx]*HIJ


class SymEPS(Equation):
    def loop(self, d_idx, s_idx, d_q0, s_q1, EPS):
        d_q0[d_idx] += s_q1[s_idx]*EPS


class SymXIJ(Equation):
    def loop(self, d_idx, s_idx, d_q0, s_q1, XIJ):
        d_q0[d_idx] += s_q1[s_idx]*XIJ[0]


class SymR2IJ(Equation):
    def loop(self, d_idx, s_idx, d_q0, s_q1, R2IJ):
        d_q0[d_idx] += s_q1[s_idx]*R2IJ


class SymRIJ(Equation):
    def loop(self, d_idx, s_idx, d_q0, s_q1, RIJ):
        d_q0[d_idx] += s_q1[s_idx]*RIJ


class SymVIJ(Equation):
    def loop(self, d_idx, s_idx, d_q0, s_q1, VIJ):
        d_q0[d_idx] += s_q1[s_idx]*VIJ[1]


class SymRHOIJ(Equation):
    def loop(self, d_idx, s_idx, d_q0, s_q1, RHOIJ):
        d_q0[d_idx] += s_q1[s_idx]*RHOIJ


class SymRHOIJ1(Equation):
    def loop(self, d_idx, s_idx, d_q0, s_q1, RHOIJ1):
        d_q0[d_idx] += s_q1[s_idx]*RHOIJ1


class SymWIJ(Equation):
    def loop(self, d_idx, s_idx, d_q0, s_q1, WIJ):
        d_q0[d_idx] += s_q1[s_idx]*WIJ


class SymWI(Equation):
    def loop(self, d_idx, s_idx, d_q0, s_q1, WI):
        d_q0[d_idx] += s_q1[s_idx]*WI


class SymWJ(Equation):
    def loop(self, d_idx, s_idx, d_q0, s_q1, WJ):
        d_q0[d_idx] += s_q1[s_idx]*WJ


class SymWDP(Equation):
    def loop(self, d_idx, s_idx, d_q0, s_q1, WDP):
        d_q0[d_idx] += s_q1[s_idx]*WDP


class SymDWIJ(Equation):
    def loop(self, d_idx, s_idx, d_q0, s_q1, DWIJ):
        d_q0[d_idx] += s_q1[s_idx]*DWIJ[0]


class SymDWI(Equation):
    def loop(self, d_idx, s_idx, d_q0, s_q1, DWI):
        d_q0[d_idx] += s_q1[s_idx]*DWI[1]


class SymDWJ(Equation):
    def loop(self, d_idx, s_idx, d_q0, s_q1, DWJ):
        d_q0[d_idx] += s_q1[s_idx]*DWJ[2]


class SymGHI(Equation):
    def loop(self, d_idx, s_idx, d_q0, s_q1, GHI):
        d_q0[d_idx] += s_q1[s_idx]*GHI


class SymGHJ(Equation):
    def loop(self, d_idx, s_idx, d_q0, s_q1, GHJ):
        d_q0[d_idx] += s_q1[s_idx]*GHJ


class SymGHIJ(Equation):
    def loop(self, d_idx, s_idx, d_q0, s_q1, GHIJ):
        d_q0[d_idx] += s_q1[s_idx]*GHIJ


class SymWDASHI(Equation):
    def loop(self, d_idx, s_idx, d_q0, s_q1, WDASHI):
        d_q0[d_idx] += s_q1[s_idx]*WDASHI


class SymWDASHJ(Equation):
    def loop(self, d_idx, s_idx, d_q0, s_q1, WDASHJ):
        d_q0[d_idx] += s_q1[s_idx]*WDASHJ


class SymWDASHIJ(Equation):
    def loop(self, d_idx, s_idx, d_q0, s_q1, WDASHIJ):
        d_q0[d_idx] += s_q1[s_idx]*WDASHIJ


# ------------------------------------------------------------------- combos
class AllSymbols(Equation):
    def loop(self, d_idx, s_idx, d_q0, s_q1, HIJ, EPS, XIJ, R2IJ, RIJ, VIJ,
             RHOIJ, RHOIJ1, WIJ, WI, WJ, WDP, DWIJ, DWI, DWJ, GHI, GHJ, GHIJ,
             WDASHI, WDASHJ, WDASHIJ):
        d_q0[d_idx] += s_q1[s_idx]*(
            HIJ + EPS + XIJ[0] + R2IJ + RIJ + VIJ[0] + RHOIJ + RHOIJ1 + WIJ +
            WI + WJ + WDP + DWIJ[0] + DWI[0] + DWJ[0] + GHI + GHJ + GHIJ +
            WDASHI + WDASHJ + WDASHIJ)


class EveryHook(Equation):
    """A different requirement in every hook."""

    def initialize(self, d_idx, d_a0, t):
        d_a0[d_idx] = t

    def initialize_pair(self, d_idx, d_a1, s_b0):
        d_a1[d_idx] = s_b0[0]

    def loop_all(self, d_idx, d_a2, s_b1, NBRS, N_NBRS):
        i = declare('int')
        for i in range(N_NBRS):
            d_a2[d_idx] += s_b1[NBRS[i]]

    def loop(self, d_idx, s_idx, d_a3, s_b2, VIJ, WIJ, dt):
        d_a3[d_idx] += s_b2[s_idx]*VIJ[0]*WIJ*dt

    def post_loop(self, d_idx, d_a4, d_a0):
        d_a4[d_idx] = d_a0[d_idx]

    def reduce(self, dst, t, dt):
        pass

    def converged(self):
        return 1.0


class DestOnlyLoop(Equation):
    """`loop` names only destination arrays; rho on the sources is needed
    through RHOIJ1 alone."""

    def loop(self, d_idx, d_q0, RHOIJ1):
        d_q0[d_idx] += RHOIJ1


class SourceOnlyLoop(Equation):
    """`loop` names only source arrays; x,y,z on the destination is needed
    through DWJ alone."""

    def initialize(self, d_idx, d_q0):
        d_q0[d_idx] = 0.0

    def loop(self, s_idx, s_q1, DWJ):
        s_q1[s_idx] = DWJ[0]


class UsesConstant(Equation):
    def initialize(self, d_idx, d_m, d_c20total):
        d_c20total[0] = 0.0

    def loop(self, d_idx, s_idx, d_c20total, s_m, s_c20scale, R2IJ):
        d_c20total[0] += s_m[s_idx]*s_c20scale[0]*R2IJ

    def post_loop(self, d_idx, d_m, d_c20total):
        d_c20total[0] += d_m[d_idx]


class NoPairSymbols(Equation):
    def initialize(self, d_idx, d_q0, d_q2):
        d_q0[d_idx] = d_q2[d_idx]

    def loop(self, d_idx, s_idx, d_q0, s_q1, s_q2):
        d_q0[d_idx] += s_q1[s_idx] + s_q2[s_idx]


class NoSourceEquation(Equation):
    def __init__(self, dest):
        super(NoSourceEquation, self).__init__(dest, None)

    def initialize(self, d_idx, d_q0, d_q2, d_u):
        d_q0[d_idx] = d_q2[d_idx] + d_u[d_idx]


class UsesWholeMinimalArray(Equation):
    """Together with a particle array holding exactly x, tag, gid, pid this
    equation uses *every* property of its arrays."""

    def initialize(self, d_idx, d_x, d_tag, d_gid, d_pid):
        d_x[d_idx] = d_tag[d_idx] + d_gid[d_idx] + d_pid[d_idx]

    def loop(self, d_idx, s_idx, d_x, s_x, s_tag, s_gid, s_pid):
        d_x[d_idx] += s_x[s_idx]


TOY_CLASSES = [
    SymHIJ, SymEPS, SymXIJ, SymR2IJ, SymRIJ, SymVIJ, SymRHOIJ, SymRHOIJ1,
    SymWIJ, SymWI, SymWJ, SymWDP, SymDWIJ, SymDWI, SymDWJ, SymGHI, SymGHJ,
    SymGHIJ, SymWDASHI, SymWDASHJ, SymWDASHIJ, AllSymbols, EveryHook,
    DestOnlyLoop, SourceOnlyLoop, UsesConstant, NoPairSymbols,
    NoSourceEquation, UsesWholeMinimalArray,
]


# ------------------------------------------------------------------ steppers
class StepPerMethod(IntegratorStep):
    """A requirement of its own in every method (and t / dt arguments)."""

    def initialize(self, d_idx, d_sa0, d_x):
        d_sa0[d_idx] = d_x[d_idx]

    def stage1(self, d_idx, d_sa1, d_x, dt):
        d_sa1[d_idx] = d_x[d_idx]*dt

    def stage2(self, d_idx, d_sa2, d_x, t):
        d_sa2[d_idx] = d_x[d_idx]*t

    def stage3(self, d_idx, d_sa3, d_x):
        d_sa3[d_idx] = d_x[d_idx]


class StepDerived(StepPerMethod):
    """Inherits initialize/stage1/stage3, replaces stage2: `sa2` is no longer
    needed, `sc0` and `dt_cfl` are."""

    def stage2(self, d_idx, d_sc0, d_dt_cfl):
        d_sc0[d_idx] = d_dt_cfl[d_idx]


class StepPyStageOnly(IntegratorStep):
    """stage1 exists only as py_stage1 (takes the array object); the only
    named requirements are those of stage2."""

    def py_stage1(self, dst, t, dt):
        pass

    def stage2(self, d_idx, d_sb0, d_u0, d_u):
        d_sb0[d_idx] = d_u0[d_idx] - d_u[d_idx]


class StepUsesConstant(IntegratorStep):
    """Reads names that are usually supplied as constants."""

    def stage1(self, d_idx, d_x, d_c20total, d_V0):
        d_x[d_idx] += d_c20total[0]*d_V0[0]

    def stage2(self, d_idx, d_x, d_c20total):
        d_x[d_idx] -= d_c20total[0]


TOY_STEPPERS = [StepPerMethod, StepDerived, StepPyStageOnly, StepUsesConstant]
