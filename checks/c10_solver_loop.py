"""C10 - the solver loop reaches tf exactly and honours the output schedule.

Solver.solve() is driven with a recording stand-in integrator (this is how
the repository's own test_solver.py drives it), so no compilation is needed.
The oracle is a set of invariants over the recorded history, stated in the
property, with a small model of the documented damping factor and of the
"current" nominal step.
"""
import math

from hypothesis import strategies as st

from vlib.hyp import Failure, Outcome, Stats, search, derive_seed

RULE = ('cases = (dt, tf [commensurate / non-commensurate / dt>tf, magnitude '
        '1e-6..1e3], pfreq, sorted output_at_times [random, on step times, '
        'clustered closer than dt, = tf, > tf, inside the first step], '
        'n_damp, max_steps, adaptive on/off with a drawn sequence of '
        'returned steps or None). Non-trivial = >= 3 steps and (a requested '
        'time strictly inside a nominal step, or damping and adaptivity both '
        'active); distinct by case hash.')
ASSUMPTIONS = [
    'a requested time within 4*eps*tf*count of a step time counts as reached',
    'the recorded dt at dumps taken when the next nominal step would pass '
    'tf carries no claim (final-step shortening; accepted by the pinned '
    'tests)',
    'requested times closer than 1e-9*tf to 0, tf or one another are not '
    'generated (indistinguishable to the documented epsilon)',
]
ESSENTIAL_LABELS = {'all': ['out:inside_first_step', 'out:cluster',
                            'out:on_step', 'out:eq_tf', 'adaptive', 'damped',
                            'noncommensurate', 'dt>tf',
                            'landing']}

EPS = 2.0 ** -52 * 2


class NonTermination(Exception):
    pass


class StandIn(object):
    def __init__(self, seq, log, guard):
        self.seq = seq
        self.i = 0
        self.log = log
        self.guard = guard
        self.nsteps = 0

    def initial_acceleration(self, t, dt):
        self.log.append(('init_acc', float(t), float(dt)))

    def step(self, t, dt):
        self.nsteps += 1
        if self.nsteps > self.guard:
            raise NonTermination()
        self.log.append(('step', float(t), float(dt)))

    def compute_time_step(self, dt, cfl):
        if not self.seq:
            v = None
        else:
            v = self.seq[self.i % len(self.seq)]
            self.i += 1
        self.log.append(('cts', float(dt), v))
        return v


def fac(count, n_damp):
    if n_damp > 0 and count < n_damp:
        return 0.5 * (math.sin(math.pi * (-0.5 + (count + 1) / float(n_damp)))
                      + 1.0)
    return 1.0


@st.composite
def case_strategy(draw, big):
    scale = 10.0 ** draw(st.integers(-6, 3))
    dt = scale * draw(st.sampled_from([1.0, 1.0, 0.1, 0.3, 0.7, 2.5]))
    nmax = 3000 if big else 300
    kind = draw(st.sampled_from(['comm', 'comm', 'noncomm', 'noncomm',
                                 'dt>tf']))
    adaptive = draw(st.booleans())
    if adaptive:
        nmax = 60
    n = draw(st.integers(1, nmax))
    if draw(st.integers(0, 3)) > 0:
        n = min(n, 40)
    if kind == 'comm':
        tf = n * dt
    elif kind == 'noncomm':
        tf = (n + draw(st.floats(0.001, 0.999))) * dt
    else:
        tf = dt * draw(st.floats(0.01, 0.99))
        n = 1
    pfreq = draw(st.sampled_from([1, 2, 3, 5, 7, 10, 100, 1000]))
    n_damp = draw(st.sampled_from([0, 0, 0, 1, 2, 5, 50]))
    # output times
    outs = []
    kinds = []
    for _ in range(draw(st.integers(0, 8))):
        k = draw(st.sampled_from(['frac', 'frac', 'on_step', 'cluster',
                                  'eq_tf', 'beyond', 'inside_first_step']))
        if k == 'frac':
            T = tf * draw(st.floats(0.001, 0.999))
        elif k == 'on_step':
            T = dt * draw(st.integers(1, max(1, n)))
        elif k == 'cluster' and outs:
            T = outs[-1] + dt * draw(st.floats(1e-3, 0.9))
        elif k == 'eq_tf':
            T = tf
        elif k == 'beyond':
            T = tf * draw(st.floats(1.01, 3.0))
        else:
            k = 'inside_first_step'
            T = min(dt, tf) * draw(st.floats(0.01, 0.99))
        outs.append(T)
        kinds.append(k)
    seq = []
    if adaptive:
        for _ in range(draw(st.integers(0, 6))):
            if draw(st.integers(0, 5)) == 0:
                seq.append(None)
            else:
                seq.append(dt * 10.0 ** draw(st.floats(-1.5, 1.5)))
    max_steps = None
    if draw(st.integers(0, 7)) == 0:
        max_steps = draw(st.integers(1, max(1, n)))
    order = sorted(range(len(outs)), key=lambda i: outs[i])
    souts, skinds = [], []
    for i in order:
        T = outs[i]
        if souts and abs(T - souts[-1]) < 1e-7 * tf:
            continue
        souts.append(T)
        skinds.append(kinds[i])
    return dict(dt=dt, tf=tf, pfreq=pfreq, n_damp=n_damp, outs=souts,
                out_kinds=skinds, adaptive=adaptive, seq=seq,
                max_steps=max_steps, kind=kind)


def run_solver(case):
    from pysph.solver.solver import Solver
    log = []
    dt, tf = case['dt'], case['tf']
    seq = case['seq'] if case['adaptive'] else []
    vals = [v for v in seq if v is not None] + [dt]
    min_nom = min(vals)
    guard = int(3 * (tf / min_nom + case['n_damp'] * 400 + len(case['outs'])
                     + 2) + 200)
    integ = StandIn(seq, log, guard)
    solver = Solver(integrator=integ, tf=tf, dt=dt,
                    n_damp=case['n_damp'],
                    adaptive_timestep=case['adaptive'],
                    output_at_times=list(case['outs']))
    solver.set_print_freq(case['pfreq'])
    if case['max_steps'] is not None:
        solver.set_max_steps(case['max_steps'])
    solver.particles = []
    solver.acceleration_evals = []

    def dump():
        sd = solver._get_solver_data()
        log.append(('dump', float(solver.t), int(solver.count),
                    float(sd['dt'])))
    solver.dump_output = dump
    solver.add_pre_step_callback(
        lambda s: log.append(('pre', float(s.t), int(s.count))))
    solver.add_post_step_callback(
        lambda s: log.append(('post', float(s.t), int(s.count))))
    err = None
    try:
        solver.solve(show_progress=False)
    except NonTermination:
        err = 'nontermination'
    return solver, log, err


def check(case):
    dt0, tf = case['dt'], case['tf']
    n_damp = case['n_damp']
    klass = dict(adaptive=case['adaptive'], damped=n_damp > 0)
    labels = []
    fails = []
    try:
        solver, log, err = run_solver(case)
    except Exception as ex:
        return [Failure('Solver.solve', 'exception', repr(ex), klass)], \
            labels, False
    if err:
        return [Failure('Solver.solve', 'nontermination',
                        'more steps than any admissible schedule allows',
                        klass)], labels, False

    def F(kind, detail, **kw):
        k = dict(klass)
        k.update(kw)
        fails.append(Failure('Solver.solve', kind, detail, k))

    steps = [e for e in log if e[0] == 'step']
    dumps = [e for e in log if e[0] == 'dump']
    count = len(steps)
    tol_t = 4 * EPS * tf * max(count, 1)
    hit_max = case['max_steps'] is not None and count >= case['max_steps']
    # ---- termination at tf
    if hit_max:
        labels.append('max_steps_hit')
        if count != case['max_steps']:
            F('max_steps', 'took %d steps with max_steps=%d' % (
                count, case['max_steps']))
    elif abs(solver.t - tf) > tol_t:
        F('final_time', 't_end=%r tf=%r after %d steps' % (solver.t, tf,
                                                          count))
    if solver.count != count:
        F('count', 'solver.count=%d but %d steps' % (solver.count, count))
    # ---- time strictly increasing, t = sum(dt)
    t = 0.0
    nominal = dt0
    pending = None      # value returned by compute_time_step since last step
    k = 0
    ev_order = []
    inside_hit = False
    landing = False
    step_ivals = []
    nominal_at = {}     # step index -> nominal used for the bound
    for e in log:
        if e[0] == 'cts':
            if e[2] is not None:
                nominal = e[2]
        elif e[0] == 'step':
            ts, ds = e[1], e[2]
            if not (ds > 0.0):
                F('nonpositive_step', 'step %d has dt=%r' % (k, ds))
            if abs(ts - t) > tol_t:
                F('time_sum', 'step %d starts at %r but sum of steps is %r'
                  % (k, ts, t))
            allowed = fac(k, n_damp) * nominal
            if ds > allowed * (1 + 1e-9) + tol_t:
                F('step_exceeds', 'step %d: dt=%r > allowed %r (nominal %r '
                  'x damping %r)' % (k, ds, allowed, nominal,
                                     fac(k, n_damp)))
            if ds < allowed * (1 - 1e-9):
                landing = True
            step_ivals.append((ts, ts + ds, allowed))
            nominal_at[k] = nominal
            t = ts + ds
            k += 1
        if e[0] in ('pre', 'step', 'post'):
            ev_order.append(e[0])
    if ev_order != ['pre', 'step', 'post'] * count:
        F('callbacks', 'pre/step/post do not alternate once per step: %r'
          % ev_order[:12])
    # ---- dumps: start and end
    if not dumps or dumps[0][1] != 0.0 or dumps[0][2] != 0:
        F('dump_start', 'no output at the start: %r' % (dumps[:1],))
    if not dumps or abs(dumps[-1][1] - solver.t) > 0 or \
            dumps[-1][2] != count:
        F('dump_end', 'no output at the end: %r' % (dumps[-1:],))
    if log and log[-1][0] != 'dump':
        F('dump_end', 'last event is not the final dump')
    dump_counts = set(d[2] for d in dumps)
    for c in range(1, count + 1):
        if c % case['pfreq'] == 0 and c not in dump_counts:
            F('dump_pfreq', 'no output at iteration %d (pfreq %d)' % (
                c, case['pfreq']))
            break
    # ---- requested times
    for T, kd in zip(case['outs'], case['out_kinds']):
        labels.append('out:' + kd)
        if not (T > 1e-9 * tf and T < tf * (1 - 1e-9)):
            continue
        if hit_max and T > solver.t:
            continue
        got = any(abs(d[1] - T) <= tol_t for d in dumps)
        passed = [(a, b) for (a, b, al) in step_ivals
                  if a < T - tol_t and b > T + tol_t]
        for (a, b, al) in step_ivals:
            if a < T - tol_t and a + al > T + tol_t:
                inside_hit = True
        first = bool(step_ivals) and T < step_ivals[0][2] * (1 - 1e-9)
        if passed:
            F('output_time_stepped_over',
              'requested time %r lies strictly inside step [%r, %r]' % (
                  T, passed[0][0], passed[0][1]),
              first_step=bool(first and passed[0][0] == 0.0))
        elif not got:
            F('output_time_missing', 'no output written at requested time '
              '%r' % T, first_step=bool(first))
    # ---- recorded dt is the nominal one
    # replay the model to know the nominal at each dump
    nominal = dt0
    kk = 0
    for e in log:
        if e[0] == 'cts':
            if e[2] is not None:
                nominal = e[2]
        elif e[0] == 'step':
            kk += 1
        elif e[0] == 'dump':
            td, cd, dd = e[1], e[2], e[3]
            nxt = fac(kk, n_damp) * nominal
            exempt = (td + nxt) > tf * (1 - 1e-9) - tol_t or \
                abs(td - tf) <= tol_t or (hit_max and cd == count)
            if exempt:
                continue
            if abs(dd - nominal) > 1e-9 * nominal:
                F('recorded_dt', 'output at t=%r (iteration %d) records '
                  'dt=%r, nominal step is %r' % (td, cd, dd, nominal))
                break
    if case['adaptive'] and case['seq']:
        labels.append('adaptive')
    if n_damp > 0:
        labels.append('damped')
    if case['kind'] == 'noncomm':
        labels.append('noncommensurate')
    if case['kind'] == 'dt>tf':
        labels.append('dt>tf')
    if landing:
        labels.append('landing')
    nontrivial = count >= 3 and (inside_hit or (
        n_damp > 0 and case['adaptive'] and bool(case['seq'])))
    return fails, labels, nontrivial


def execute(case):
    fails, labels, nt = check(case)
    return Outcome(fails, sorted(set(labels)), nt)


def plan(ctx):
    n = 24000 if ctx['tier'] == 'quick' else 1000000
    k = 16
    return [dict(name='loop-%02d' % i, max_examples=n // k,
                 big=(ctx['tier'] != 'quick')) for i in range(k)]


def run_shard(spec, ctx):
    stats = Stats()
    search(case_strategy(spec['big']), execute,
           derive_seed(ctx.seed, 'C10', spec['name']),
           spec['max_examples'], stats, shrink=True)
    return stats.result()


def run_case(case, component, ctx):
    fails, _, _ = check(case)
    return [f.as_dict(case) for f in fails]
