"""C10 - the solver loop reaches tf exactly and honours the output schedule.

Solver.solve() is driven with a recording stand-in integrator (this is how
the repository's own test_solver.py drives it), so no compilation is needed.
The oracle is a set of invariants over the recorded history, stated in the
property, with a small model of the documented damping factor and of the
"current" nominal step.

The real ``Solver.dump_output`` runs (only the module-level ``dump`` it hands
the data to is replaced by a recorder), every option is supplied either
through the constructor or through its setter, and the history of one Solver
object may contain a start at t0 != 0 / count != 0 (a restart), documented
setters called from a pre/post-step callback in the middle of the run, and a
second ``solve()`` after the final time was moved.
"""
import inspect
import math
import os

from hypothesis import strategies as st

from vlib.hyp import Failure, Outcome, Stats, search, derive_seed

RULE = ('cases = (dt, tf [commensurate / non-commensurate / dt>tf, magnitude '
        '1e-6..1e3], pfreq, sorted output_at_times [random, on step times, '
        'clustered closer than dt, = tf, > tf, inside the first step, exact '
        'duplicates, <= start time], n_damp, max_steps (incl. no step at '
        'all), adaptive on/off with a drawn sequence of returned steps or '
        'None) x how every option reaches the Solver (constructor keyword / '
        'setter, list / tuple / ndarray, int / float / numpy scalars) x '
        'output flags, file name, callbacks (0-3 of each), command handler, '
        'reorder_freq, serial or single-rank parallel x history (start at '
        't0, count0 != 0; set_print_freq / set_max_steps / '
        'set_output_at_times / set_final_time / set_time_step / set_cfl / '
        'set_adaptive_timestep called from a '
        'pre/post-step callback; a second solve() after set_final_time). '
        'Non-trivial = >= 3 steps and (a requested time strictly inside a '
        'nominal step, or damping and adaptivity both active); distinct by '
        'case hash.')
ASSUMPTIONS = [
    'a requested time within 4*eps*tf*count of a step time counts as reached',
    'the recorded dt at dumps taken when the next nominal step would pass '
    'tf carries no claim (final-step shortening; accepted by the pinned '
    'tests)',
    'requested times closer than 1e-9*tf to the start, tf or one another '
    '(exact duplicates excepted) are not generated (indistinguishable to '
    'the documented epsilon)',
    'setters called in the middle of a run: a new list of output times / a '
    'new tf only contains times at or after the end of the step in '
    'progress, tf is only moved while the step in progress does not reach '
    'the old tf, set_time_step only shortens an unshortened, undamped step '
    'from a pre-step callback (anything else by-passes the landing logic '
    'and has no documented meaning; such draws are skipped and counted)',
    'a second solve() is only made when no shortened step is pending and '
    'damping is over (counted otherwise)',
    'single-rank parallel runs (stand-in manager returning its argument) '
    'are only generated when the integrator always proposes a step',
]
ESSENTIAL_LABELS = {'all': [
    'out:inside_first_step', 'out:cluster', 'out:on_step', 'out:eq_tf',
    'adaptive', 'damped', 'noncommensurate', 'dt>tf', 'landing',
    # audit extensions
    'out:dup', 'out:before_start', 'how:tf_setter', 'how:dt_setter',
    'how:outs_setter', 'how:pfreq_kwarg', 'how:max_steps_kwarg',
    'how:n_damp_setter', 'how:adaptive_setter', 'how:cfl_setter',
    'outs_form:tuple', 'outs_form:ndarray', 'int_args', 'np_float',
    'flags:detailed', 'flags:all_particles', 'flags:compress',
    'flags:disabled', 'fname', 'cb:none', 'cb:many', 'cmd', 'reorder',
    'parallel', 'parallel:two_ranks', 'show_default', 'max_steps_zero', 't0', 'count0',
    'count0_in_damping', 'mid:pfreq', 'mid:max_steps', 'mid:outs',
    'mid:tf', 'mid:tf_now', 'mid:dt', 'mid:outs_landed', 'mid:cfl',
    'mid:adaptive', 'dump_override', 'second',
    'second:extended', 'second:after_max_steps', 'tf_extended_due']}

EPS = 2.0 ** -52 * 2


class NonTermination(Exception):
    pass


class StandIn(object):
    def __init__(self, seq, log, guard, state, np_float=False):
        self.seq = seq
        self.i = 0
        self.log = log
        self.guard = guard
        self.nsteps = 0
        self.state = state
        self.np_float = np_float

    def initial_acceleration(self, t, dt):
        self.log.append(('init_acc', float(t), float(dt)))

    def step(self, t, dt):
        self.nsteps += 1
        if self.nsteps > self.guard:
            raise NonTermination()
        self.log.append(('step', float(t), float(dt)))

    def compute_time_step(self, dt, cfl):
        if not self.seq:
            v = None
        else:
            v = self.seq[self.i % len(self.seq)]
            self.i += 1
        try:
            c = float(cfl)
        except Exception:
            c = repr(cfl)
        self.log.append(('cts', float(dt), v, c))
        if v is not None:
            self.state['nominal'] = v
            if self.np_float:
                import numpy
                return numpy.float64(v)
        return v


class FakeArray(object):
    # what Solver.reorder_particles may look at
    properties = {}
    num_real_particles = 0

    def __init__(self, name, log):
        self.name = name
        self.log = log

    def set_time(self, t):
        self.log.append(('set_time', self.name, float(t)))


class FakeNNPS(object):
    def __init__(self, log):
        self.log = log
        self.pending = []

    def spatially_order_particles(self, i):
        self.pending.append(int(i))

    def update(self):
        self.log.append(('reorder', list(self.pending)))
        self.pending = []

    def update_domain(self):
        pass


class FakePM(object):
    """update_time_steps is a MIN reduction over the ranks; the other rank
    always proposes `other` (None: there is no other rank)."""

    def __init__(self, log, state, other):
        self.log = log
        self.state = state
        self.other = other

    def update_time_steps(self, dt):
        if self.other is not None and self.other < dt:
            dt = self.other
        self.log.append(('pm', float(dt)))
        self.state['nominal'] = float(dt)
        return dt

    def update(self):
        pass


class FakeComm(object):
    def __init__(self, log):
        self.log = log

    def barrier(self):
        self.log.append(('barrier',))


def fac(count, n_damp):
    if n_damp > 0 and count < n_damp:
        return 0.5 * (math.sin(math.pi * (-0.5 + (count + 1) / float(n_damp)))
                      + 1.0)
    return 1.0


def _mults(draw, n):
    out = []
    for _ in range(n):
        k = draw(st.sampled_from(['now', 'frac', 'int', 'far']))
        if k == 'now':
            out.append(0.0)
        elif k == 'frac':
            out.append(draw(st.floats(0.002, 0.998)))
        elif k == 'int':
            out.append(float(draw(st.integers(1, 5))))
        else:
            out.append(draw(st.integers(1, 5)) + draw(st.floats(0.002,
                                                                0.998)))
    return out


@st.composite
def case_strategy(draw, big, mode='basic'):
    scale = 10.0 ** draw(st.integers(-6, 3))
    dt = scale * draw(st.sampled_from([1.0, 1.0, 0.1, 0.3, 0.7, 2.5]))
    nmax = 3000 if big else 300
    kind = draw(st.sampled_from(['comm', 'comm', 'noncomm', 'noncomm',
                                 'dt>tf']))
    adaptive = draw(st.booleans())
    if adaptive:
        nmax = 60
    n = draw(st.integers(1, nmax))
    if draw(st.integers(0, 3)) > 0:
        n = min(n, 40)
    hist = mode == 'hist'
    # ---- start state (a restart: t and count as load_output() leaves them)
    t0, count0 = 0.0, 0
    n_damp = draw(st.sampled_from([0, 0, 0, 1, 2, 5, 50]))
    want = draw(st.sampled_from(['t0', 'mid', 'second', 'any'])) if hist \
        else None
    if hist and (want == 't0' or draw(st.integers(0, 3)) == 0):
        if draw(st.booleans()):
            t0 = dt * draw(st.integers(1, 50))
        else:
            t0 = dt * draw(st.floats(0.05, 50.0))
        ck = draw(st.sampled_from(['zero', 'damp', 'any']))
        if ck == 'damp' and n_damp > 1:
            count0 = draw(st.integers(1, n_damp - 1))
        elif ck == 'any':
            count0 = draw(st.sampled_from([1, 3, 7, 50, 1000]))
    span_unit = dt
    if kind == 'comm':
        tf = t0 + n * dt
    elif kind == 'noncomm':
        tf = t0 + (n + draw(st.floats(0.001, 0.999))) * dt
    else:
        tf = t0 + dt * draw(st.floats(0.01, 0.99))
        n = 1
    span = tf - t0
    pfreq = draw(st.sampled_from([1, 2, 3, 5, 7, 10, 100, 1000, 4, 6,
                                  10 ** 6]))
    # output times
    outs = []
    kinds = []
    for _ in range(draw(st.integers(0, 8))):
        k = draw(st.sampled_from(['frac', 'frac', 'on_step', 'cluster',
                                  'eq_tf', 'beyond', 'inside_first_step',
                                  'dup', 'before_start']))
        if k == 'frac':
            T = t0 + span * draw(st.floats(0.001, 0.999))
        elif k == 'on_step':
            T = t0 + dt * draw(st.integers(1, max(1, n)))
        elif k == 'cluster' and outs:
            T = outs[-1] + dt * draw(st.floats(1e-3, 0.9))
        elif k == 'dup' and outs:
            T = outs[-1]
        elif k == 'eq_tf':
            T = tf
        elif k == 'beyond':
            T = tf + span * draw(st.floats(0.01, 2.0))
        elif k == 'before_start':
            T = draw(st.sampled_from([0.0, t0, -t0, -tf,
                                      t0 - dt * 0.5, -dt]))
            if T > t0:
                T = t0
        else:
            k = 'inside_first_step'
            T = t0 + min(dt, span) * draw(st.floats(0.01, 0.99))
        outs.append(T)
        kinds.append(k)
    seq = []
    if adaptive:
        wide = draw(st.integers(0, 5)) == 0
        for _ in range(draw(st.integers(0, 6))):
            if draw(st.integers(0, 5)) == 0:
                seq.append(None)
            elif wide and draw(st.booleans()):
                seq.append(dt * 10.0 ** draw(st.floats(1.5, 4.0)))
            else:
                seq.append(dt * 10.0 ** draw(st.floats(-1.5, 1.5)))
    max_steps = None
    if draw(st.integers(0, 7)) == 0:
        max_steps = count0 + draw(st.integers(0, max(1, n)))
    order = sorted(range(len(outs)), key=lambda i: outs[i])
    souts, skinds = [], []
    for i in order:
        T = outs[i]
        if souts and abs(T - souts[-1]) < 1e-7 * tf and not (
                T == souts[-1] and 'dup' in (kinds[i], skinds[-1])):
            continue
        if abs(T - t0) < 1e-7 * tf and T != t0:
            continue
        souts.append(T)
        skinds.append(kinds[i])
    xdup = 0
    case = dict(dt=dt, tf=tf, pfreq=pfreq, n_damp=n_damp, outs=souts,
                out_kinds=skinds, adaptive=adaptive, seq=seq,
                max_steps=max_steps, kind=kind)
    if xdup:
        case['xdup'] = xdup
    # ---- how the options reach the solver
    two = lambda a, b: draw(st.sampled_from([a, a, b]))   # noqa: E731
    how = dict(tf=two('ctor', 'setter'), dt=two('ctor', 'setter'),
               n_damp=two('ctor', 'setter'),
               adaptive=two('ctor', 'setter'), cfl=two('ctor', 'setter'),
               outs=two('ctor', 'setter'),
               outs_form=draw(st.sampled_from(['list', 'list', 'tuple',
                                               'ndarray'])),
               pfreq=two('setter', 'kwarg'),
               max_steps=two('setter', 'kwarg'),
               flags=two('setter', 'kwarg'),
               reorder=two('setter', 'kwarg'))
    case['how'] = how
    case['cfl'] = draw(st.sampled_from([0.3, 0.3, 0.05, 0.5, 1.0, 0.123]))
    case['show'] = draw(st.sampled_from([False, False, None, True]))
    case['np_float'] = draw(st.booleans())
    if dt == int(dt) and tf == int(tf) and t0 == int(t0) and \
            draw(st.booleans()):
        case['int_args'] = True
    flags = {}
    if draw(st.integers(0, 2)) == 0:
        flags = dict(detailed=draw(st.booleans()),
                     only_real=draw(st.booleans()),
                     compress=draw(st.booleans()),
                     disabled=draw(st.integers(0, 5)) == 0)
    case['flags'] = flags
    case['fname'] = draw(st.sampled_from([None, None, 'run_a', 'x']))
    case['outdir'] = draw(st.sampled_from([None, None, 'out', 'a/b_c']))
    case['ncb'] = [draw(st.sampled_from([1, 1, 0, 2, 3])),
                   draw(st.sampled_from([1, 1, 0, 2, 3]))]
    case['cmd'] = draw(st.sampled_from([None, None, 'default', 1, 2, 5]))
    case['cmd_kw'] = draw(st.booleans())
    case['reorder_freq'] = draw(st.sampled_from([0, 0, 0, 1, 3, 10]))
    case['nparr'] = draw(st.sampled_from([0, 0, 1, 2]))
    if not flags and draw(st.integers(0, 3)) == 0:
        # dump_output overridden by the user (as the pinned tests do)
        case['dump_override'] = True
    par = None
    if draw(st.integers(0, 9)) == 0:
        if None not in seq and (seq or not adaptive):
            par = draw(st.sampled_from(['collected', 'distributed',
                                        'default']))
            if adaptive and draw(st.booleans()):
                case['par_other'] = dt * 10.0 ** draw(st.floats(-1.0, 1.0))
        else:
            # KNOWN (audit, /var/tmp/audC10/parallel_no_criterion.py): in
            # parallel "no criterion" becomes a step of 1e20; not driven
            case['xpar'] = 1
    case['parallel'] = par
    if t0 or count0:
        case['t0'] = t0
        case['count0'] = count0
    # ---- setters called from callbacks in the middle of the run
    mids = []
    if hist and (want == 'mid' or draw(st.integers(0, 2)) == 0):
        for _ in range(draw(st.integers(1, 3))):
            op = draw(st.sampled_from(
                ['pfreq', 'max_steps', 'outs', 'outs', 'tf', 'tf', 'dt',
                 'cfl'] + (['cfl', 'adaptive', 'adaptive'] if adaptive
                           else [])))
            m = dict(op=op, at=count0 + draw(st.integers(0, min(n, 12))),
                     where=draw(st.sampled_from(['pre', 'post'])))
            if op == 'pfreq':
                m['v'] = draw(st.sampled_from([1, 2, 3, 5, 1000]))
            elif op == 'max_steps':
                m['v'] = draw(st.integers(0, 5))
            elif op == 'outs':
                m['keep'] = draw(st.booleans())
                m['ms'] = _mults(draw, draw(st.integers(0, 4)))
                m['form'] = draw(st.sampled_from(['list', 'ndarray',
                                                  'tuple']))
            elif op == 'tf':
                m['m'] = _mults(draw, 1)[0]
            elif op == 'cfl':
                m['v'] = draw(st.sampled_from([0.1, 0.25, 0.9]))
            elif op == 'adaptive':
                m['v'] = draw(st.sampled_from([False, False, True]))
            else:
                m['where'] = 'pre'
                m['f'] = draw(st.floats(0.2, 0.95))
            mids.append(m)
    if mids:
        case['mid'] = mids
        for w, i in (('pre', 0), ('post', 1)):
            if any(m['where'] == w for m in mids) and case['ncb'][i] == 0:
                case['ncb'][i] = 1
    # ---- a second solve() on the same object
    if hist and (want == 'second' or draw(st.integers(0, 3)) == 0):
        sec = dict(ext=draw(st.sampled_from(['none', 'frac', 'int', 'far',
                                             'far'])),
                   m=draw(st.floats(0.002, 0.998)),
                   k=draw(st.integers(1, 8)),
                   dt=draw(st.sampled_from([None, 1.0, 1.0, 0.5, 2.0, 0.3])),
                   more=draw(st.sampled_from([None, 0, 1, 3, 10 ** 6])),
                   outs=_mults(draw, draw(st.integers(0, 3)))
                   if draw(st.booleans()) else None)
        case['second'] = sec
    return case


def _as_form(vals, form):
    import numpy
    if form == 'tuple':
        return tuple(vals)
    if form == 'ndarray':
        return numpy.array(vals, dtype=float)
    return list(vals)


def _dedup_sorted(vals, scale):
    out = []
    for v in sorted(vals):
        if out and abs(v - out[-1]) < 1e-7 * scale:
            continue
        out.append(v)
    return out


def run_solver(case):
    import numpy
    import pysph.solver.solver as S
    Solver = S.Solver
    log = []
    H = case.get('how') or {}
    dt, tf = case['dt'], case['tf']
    t0 = case.get('t0', 0.0)
    count0 = case.get('count0', 0)
    if case.get('int_args'):
        dt, tf, t0 = int(dt), int(tf), int(t0)
    seq = case['seq'] if case['adaptive'] else []
    vals = [v for v in seq if v is not None] + [case['dt']]
    if case.get('par_other'):
        vals.append(case['par_other'])
    min_nom = min(vals)
    for m in case.get('mid') or []:
        if m['op'] == 'dt':
            min_nom *= m['f']
    sec = case.get('second')
    if sec and sec.get('dt'):
        min_nom = min(min_nom, sec['dt'] * case['dt'])
    span = 2 * (case['tf'] - case.get('t0', 0.0)) + 40 * case['dt']
    nouts = len(case['outs']) + 30
    guard = int(3 * (span / min_nom + case['n_damp'] * 400 + nouts + 2)
                + 200)
    state = dict(nominal=float(case['dt']))
    integ = StandIn(seq, log, guard, state, case.get('np_float', False))
    kw = dict(integrator=integ)
    post = []       # setter calls made after construction

    def opt(name, key, value, setter, default='ctor'):
        if H.get(name, default) in ('ctor', 'kwarg'):
            kw[key] = value
        else:
            post.append((setter, value))
    opt('tf', 'tf', tf, 'set_final_time')
    opt('dt', 'dt', dt, 'set_time_step')
    opt('n_damp', 'n_damp', case['n_damp'], 'set_n_damp')
    opt('adaptive', 'adaptive_timestep', case['adaptive'],
        'set_adaptive_timestep')
    if 'cfl' in case:
        opt('cfl', 'cfl', case['cfl'], 'set_cfl')
    opt('outs', 'output_at_times',
        _as_form(case['outs'], H.get('outs_form', 'list')),
        'set_output_at_times')
    opt('pfreq', 'pfreq', case['pfreq'], 'set_print_freq', 'setter')
    if case['max_steps'] is not None:
        opt('max_steps', 'max_steps', case['max_steps'], 'set_max_steps',
            'setter')
    fl = case.get('flags') or {}
    if fl:
        opt('flags', 'detailed_output', fl['detailed'],
            'set_output_printing_level', 'setter')
        opt('flags', 'output_only_real', fl['only_real'],
            'set_output_only_real', 'setter')
        opt('flags', 'compress_output', fl['compress'],
            'set_compress_output', 'setter')
        if fl['disabled']:
            opt('flags', 'disable_output', True, 'set_disable_output',
                'setter')
    if case.get('reorder_freq'):
        opt('reorder', 'reorder_freq', case['reorder_freq'],
            'set_reorder_freq', 'setter')
    comm = pm = None
    if case.get('parallel'):
        comm, pm = FakeComm(log), FakePM(log, state, case.get('par_other'))
        kw['in_parallel'] = True
        kw['comm'] = comm
    solver = Solver(**kw)
    for name, value in post:
        getattr(solver, name)(value)
    if case.get('fname'):
        solver.set_output_fname(case['fname'])
    if case.get('outdir'):
        solver.set_output_directory(case['outdir'])
    if pm is not None:
        solver.set_parallel_manager(pm)
        if case['parallel'] != 'default':
            solver.set_parallel_output_mode(case['parallel'])
    arrays = [FakeArray('p%d' % i, log) for i in range(case.get('nparr', 0))]
    solver.particles = arrays
    solver.acceleration_evals = []
    solver.nnps = FakeNNPS(log)
    if t0 or count0:
        solver.t = t0
        solver.count = count0

    real_dump = S.dump
    sig = inspect.signature(real_dump)

    def rec_dump(*a, **k):
        d = sig.bind(*a, **k)
        d.apply_defaults()
        d = d.arguments
        sd = d['solver_data']
        log.append(('dump', float(solver.t), int(solver.count),
                    float(sd['dt']), float(solver.tf),
                    dict(fname=str(d['filename']), t=float(sd['t']),
                         count=int(sd['count']),
                         detailed=d['detailed_output'],
                         only_real=d['only_real'], compress=d['compress'],
                         comm=(None if d['mpi_comm'] is None else
                               ('comm' if d['mpi_comm'] is comm
                                else 'other')),
                         particles=d['particles'] is solver.particles)))

    mids = case.get('mid') or []
    unit = float(case['dt'])

    def apply_mid(s, where):
        k = int(s.count)
        for m in mids:
            if m['where'] != where or m['at'] != k:
                continue
            t_next = float(s.t) + float(s.dt)
            op = m['op']
            if op == 'pfreq':
                s.set_print_freq(m['v'])
                log.append(('mid', 'pfreq', where, m['v']))
            elif op == 'max_steps':
                v = k + 1 + m['v']
                s.set_max_steps(v)
                log.append(('mid', 'max_steps', where, v))
            elif op == 'cfl':
                s.set_cfl(m['v'])
                log.append(('mid', 'cfl', where, m['v']))
            elif op == 'adaptive':
                s.set_adaptive_timestep(m['v'])
                log.append(('mid', 'adaptive', where, m['v']))
            elif op == 'outs':
                old = [float(x) for x in numpy.asarray(s.output_at_times)] \
                    if m['keep'] else []
                new = [t_next + mm * unit for mm in m['ms']]
                keep = []
                tfv = float(s.tf)
                for T in sorted(new):
                    # not closer than 1e-7 tf to another time or to tf
                    # (exact coincidence is fine)
                    if T in keep or T in old or any(
                            T != o and abs(T - o) < 1e-7 * tfv
                            for o in old + keep + [tfv]):
                        continue
                    keep.append(T)
                lst = sorted(old + keep)
                s.set_output_at_times(_as_form(lst, m['form']))
                log.append(('mid', 'outs', where, lst, keep))
            elif op == 'tf':
                full = fac(k, case['n_damp']) * state['nominal']
                if float(s.tf) - (float(s.t) + full) > 1e-6 * float(s.tf):
                    v = t_next + m['m'] * unit
                    s.set_final_time(v)
                    log.append(('mid', 'tf', where, float(v),
                                m['m'] == 0.0))
                else:
                    log.append(('midskip', 'tf'))
            elif op == 'dt':
                if k >= case['n_damp'] and s._prev_dt is None and \
                        float(s.dt) >= state['nominal'] * (1 - 1e-12):
                    v = float(s.dt) * m['f']
                    s.set_time_step(v)
                    state['nominal'] = v
                    log.append(('mid', 'dt', where, v))
                else:
                    log.append(('midskip', 'dt'))

    def mk(kind, i):
        def cb(s):
            log.append((kind, i, s is solver))
            if i == 0:
                apply_mid(s, kind)
        return cb
    ncb = case.get('ncb', [1, 1])
    for i in range(ncb[0]):
        solver.add_pre_step_callback(mk('pre', i))
    for i in range(ncb[1]):
        solver.add_post_step_callback(mk('post', i))
    cmd = case.get('cmd')
    if cmd is not None:
        def handler(s):
            log.append(('cmd', int(s.count), s is solver))
        if cmd == 'default':
            solver.set_command_handler(handler)
        elif case.get('cmd_kw'):
            solver.set_command_handler(handler, command_interval=cmd)
        else:
            solver.set_command_handler(handler, cmd)

    def go(**told):
        # what the solver was told (never what it remembers of it)
        told.update(t0=float(solver.t), c0=int(solver.count),
                    nominal=float(state['nominal']))
        log.append(('begin', told))
        if case.get('show', False) is None:
            solver.solve()
        else:
            solver.solve(show_progress=case.get('show', False))
        log.append(('end', float(solver.t), int(solver.count)))

    if case.get('dump_override'):
        def user_dump():
            sd = solver._get_solver_data()
            log.append(('dump', float(solver.t), int(solver.count),
                        float(sd['dt']), float(solver.tf), None))
        solver.dump_output = user_dump
    err = None
    S.dump = rec_dump
    try:
        go(tf=float(case['tf']), pfreq=case['pfreq'],
           max_steps=case['max_steps'], outs=list(case['outs']))
        if sec:
            if solver._prev_dt is not None or \
                    solver._damping_factor != 1.0:
                log.append(('midskip', 'second'))
            else:
                t_now = float(solver.t)
                hit = solver.count >= solver.max_steps
                ext = sec['ext']
                tf2 = float(solver.tf)
                base = max(t_now, tf2)
                if ext == 'frac':
                    tf2 = base + sec['m'] * unit
                elif ext == 'int':
                    tf2 = base + sec['k'] * unit
                elif ext == 'far':
                    tf2 = base + (sec['k'] + sec['m']) * unit
                if sec['dt'] is None:
                    # keeps the last (possibly tiny) step: bounded work
                    tf2 = min(tf2, base + 300 * float(solver.dt))
                told = {}
                if ext != 'none':
                    solver.set_final_time(tf2)
                    told['tf'] = tf2
                if sec['dt'] is not None:
                    v = sec['dt'] * unit
                    solver.set_time_step(v)
                    state['nominal'] = v
                else:
                    state['nominal'] = float(solver.dt)
                if sec['more'] is not None:
                    solver.set_max_steps(int(solver.count) + sec['more'])
                    told['max_steps'] = int(solver.count) + sec['more']
                if sec['outs'] is not None:
                    lst = _dedup_sorted(
                        [t_now + mm * unit for mm in sec['outs']], tf2)
                    lst = [T for T in lst
                           if abs(T - tf2) >= 1e-7 * tf2 and
                           (T == t_now or abs(T - t_now) >= 1e-7 * tf2)]
                    solver.set_output_at_times(lst)
                    told['outs'] = lst
                log.append(('second', ext != 'none', bool(hit)))
                integ.guard = integ.nsteps + int(3 * (
                    (40 * unit + abs(float(solver.tf) - t_now)) /
                    min(min_nom, state['nominal']) + nouts + 2) + 200)
                go(**told)
    except NonTermination:
        err = 'nontermination'
    finally:
        S.dump = real_dump
    return solver, log, err, dict(comm=comm)


def check(case):
    n_damp = case['n_damp']
    klass = dict(adaptive=case['adaptive'], damped=n_damp > 0)
    labels = []
    fails = []
    try:
        solver, log, err, aux = run_solver(case)
    except Exception as ex:
        return [Failure('Solver.solve', 'exception', repr(ex), klass)], \
            labels, False
    if err:
        return [Failure('Solver.solve', 'nontermination',
                        'more steps than any admissible schedule allows',
                        klass)], labels, False

    def F(kind, detail, **kw):
        k = dict(klass)
        k.update(kw)
        fails.append(Failure('Solver.solve', kind, detail, k))

    # ---- split the history into solve() segments
    segs = []
    for e in log:
        if e[0] == 'begin':
            segs.append(dict(cfg=e[1], ev=[], end=None))
        elif e[0] == 'end':
            segs[-1]['end'] = e
        elif e[0] == 'second':
            labels.append('second')
            if e[1]:
                labels.append('second:extended')
            if e[2]:
                labels.append('second:after_max_steps')
        elif e[0] == 'midskip':
            labels.append('skipped:' + e[1])
        elif segs and segs[-1]['end'] is None:
            segs[-1]['ev'].append(e)
    nontrivial = False
    first_kinds = dict(zip(case['outs'], case['out_kinds']))
    carried = {}
    for si, seg in enumerate(segs):
        cfg = dict(carried)
        cfg.update(seg['cfg'])
        seg['cfg'] = cfg
        if si and cfg['t0'] != segs[si - 1]['end'][1]:
            F('resume', 'second solve() starts at t=%r, the first ended at '
              '%r' % (cfg['t0'], segs[si - 1]['end'][1]))
        nt, carried = check_segment(case, seg, si, F, labels,
                                    first_kinds if si == 0 else {}, aux)
        nontrivial = nontrivial or nt
    # ---- labels of the configuration
    H = case.get('how') or {}
    for name in ('tf', 'dt', 'outs', 'n_damp', 'adaptive', 'cfl'):
        if H.get(name) == 'setter':
            labels.append('how:%s_setter' % name)
    if H.get('pfreq') == 'kwarg':
        labels.append('how:pfreq_kwarg')
    if H.get('max_steps') == 'kwarg' and case['max_steps'] is not None:
        labels.append('how:max_steps_kwarg')
    if H.get('outs_form') in ('tuple', 'ndarray') and case['outs']:
        labels.append('outs_form:' + H['outs_form'])
    if case.get('int_args'):
        labels.append('int_args')
    if case.get('np_float') and case['adaptive'] and case['seq']:
        labels.append('np_float')
    fl = case.get('flags') or {}
    if fl.get('detailed'):
        labels.append('flags:detailed')
    if fl and not fl.get('only_real'):
        labels.append('flags:all_particles')
    if fl.get('compress'):
        labels.append('flags:compress')
    if fl.get('disabled'):
        labels.append('flags:disabled')
    if case.get('fname') or case.get('outdir'):
        labels.append('fname')
    ncb = case.get('ncb', [1, 1])
    if 0 in ncb:
        labels.append('cb:none')
    if max(ncb) > 1:
        labels.append('cb:many')
    if case.get('parallel'):
        labels.append('parallel')
        if case.get('par_other'):
            labels.append('parallel:two_ranks')
    if case.get('dump_override'):
        labels.append('dump_override')
    if case.get('show', False) is None:
        labels.append('show_default')
    if case.get('xpar'):
        labels.append('excluded:parallel_no_criterion')
    if case.get('t0'):
        labels.append('t0')
    if case.get('count0'):
        labels.append('count0')
        if case['count0'] < n_damp:
            labels.append('count0_in_damping')
    if case['adaptive'] and case['seq']:
        labels.append('adaptive')
    if n_damp > 0:
        labels.append('damped')
    if case['kind'] == 'noncomm':
        labels.append('noncommensurate')
    if case['kind'] == 'dt>tf':
        labels.append('dt>tf')
    return fails, labels, nontrivial


def check_segment(case, seg, si, F, labels, kinds, aux):
    cfg, ev, end = seg['cfg'], seg['ev'], seg['end']
    n_damp = case['n_damp']
    t0, c0 = cfg['t0'], cfg['c0']
    final_t, final_count = end[1], end[2]
    steps_ev = [e for e in ev if e[0] == 'step']
    count = len(steps_ev)
    tfs = [cfg['tf']] + [e[3] for e in ev if e[0] == 'mid' and e[1] == 'tf']
    tfmax = max(tfs)
    tol_t = 4 * EPS * tfmax * max(final_count, 1)
    fl = case.get('flags') or {}
    disabled = bool(fl.get('disabled'))
    ncb = case.get('ncb', [1, 1])
    cfl = cfg.get('cfl', case.get('cfl', 0.3))
    # ---- walk the history with the model of the documented state
    t = t0
    k = c0
    nominal = cfg['nominal']
    tf_cur = cfg['tf']
    pf = cfg['pfreq']
    ms = cfg['max_steps']
    versions = [dict(j0=0, outs=list(cfg['outs']))]
    steps = []          # (start, end, allowed, tf when the step was fixed)
    tf_det = tf_cur
    dumps = []
    need_pf = []
    need_cmd = []
    need_reorder = []
    open_step = None
    landing = False
    seq_ev = []
    group = []
    rec_fail = False
    cmd = case.get('cmd')
    cmd_iv = 1 if cmd == 'default' else cmd
    rf = case.get('reorder_freq', 0)

    def close():
        # the decisions taken after a step and its post-step callbacks
        c = open_step
        if c % pf == 0:
            need_pf.append(c)
        if cmd_iv and c % cmd_iv == 0:
            need_cmd.append(c)
        if rf and c % rf == 0:
            need_reorder.append(c)

    for e in ev:
        typ = e[0]
        if open_step is not None and typ not in ('post', 'mid'):
            close()
            open_step = None
            tf_det = tf_cur
        if typ == 'cts':
            if e[2] is not None:
                nominal = e[2]
            if e[3] != cfl:
                F('cfl_argument', 'compute_time_step got cfl=%r, the solver '
                  'was given cfl=%r' % (e[3], cfl))
        elif typ == 'pm':
            nominal = e[1]
        elif typ == 'mid':
            op = e[1]
            labels.append('mid:' + op)
            if op == 'pfreq':
                pf = e[3]
            elif op == 'max_steps':
                ms = e[3]
            elif op == 'outs':
                versions.append(dict(
                    j0=len(steps) + (1 if e[2] == 'pre' else 0),
                    outs=list(e[3]), new=list(e[4])))
            elif op == 'tf':
                tf_cur = e[3]
                if e[4]:
                    labels.append('mid:tf_now')
            elif op == 'dt':
                nominal = e[3]
            elif op == 'cfl':
                cfl = e[3]
        elif typ == 'step':
            ts, ds = e[1], e[2]
            j = len(steps)
            if not (ds > 0.0):
                F('nonpositive_step', 'step %d has dt=%r' % (j, ds))
            if abs(ts - t) > tol_t:
                F('time_sum', 'step %d starts at %r but sum of steps is %r'
                  % (j, ts, t))
            allowed = fac(k, n_damp) * nominal
            if ds > allowed * (1 + 1e-9) + tol_t:
                F('step_exceeds', 'step %d: dt=%r > allowed %r (nominal %r '
                  'x damping %r)' % (j, ds, allowed, nominal,
                                     fac(k, n_damp)))
            if ds < allowed * (1 - 1e-9):
                landing = True
            steps.append((ts, ts + ds, allowed, tf_det))
            t = ts + ds
            k += 1
            open_step = k
        elif typ == 'dump':
            td, cd, dd, tfd, info = e[1], e[2], e[3], e[4], e[5]
            dumps.append(e)
            nxt = fac(k, n_damp) * nominal
            hit = ms is not None and final_count >= ms
            exempt = (td + nxt) > tf_cur * (1 - 1e-9) - tol_t or \
                abs(td - tf_cur) <= tol_t or (hit and cd == final_count)
            if not exempt and not rec_fail and \
                    abs(dd - nominal) > 1e-9 * nominal:
                rec_fail = True
                F('recorded_dt', 'output at t=%r (iteration %d) records '
                  'dt=%r, nominal step is %r' % (td, cd, dd, nominal))
            bad = []
            if info is None:
                continue
            if info['t'] != td or info['count'] != cd:
                bad.append('solver_data t=%r count=%r at t=%r count=%r' % (
                    info['t'], info['count'], td, cd))
            exp_dir = case.get('outdir') or 'Solver_output'
            exp_name = case.get('fname') or 'Solver'
            d_, b_ = os.path.split(info['fname'])
            tail = b_.rsplit('_', 1)
            if d_ != exp_dir or not b_.startswith(exp_name + '_') or \
                    len(tail) != 2 or not tail[1].isdigit() or \
                    int(tail[1]) != cd:
                bad.append('file name %r for iteration %d of %s/%s' % (
                    info['fname'], cd, exp_dir, exp_name))
            want = dict(detailed=bool(fl.get('detailed', False)),
                        only_real=bool(fl.get('only_real', True)),
                        compress=bool(fl.get('compress', False)))
            for key, v in want.items():
                if bool(info[key]) != v:
                    bad.append('%s=%r passed to dump, solver was told %r'
                               % (key, info[key], v))
            wcomm = 'comm' if case.get('parallel') in ('collected',
                                                       'default') else None
            if info['comm'] != wcomm:
                bad.append('mpi_comm=%r, expected %r' % (info['comm'],
                                                         wcomm))
            if not info['particles']:
                bad.append('particles passed are not solver.particles')
            if bad:
                F('dump_arguments', '; '.join(bad))
        if typ in ('pre', 'step', 'post'):
            seq_ev.append(typ)
            if typ != 'step':
                group.append((typ, e[1]))
                if not e[2]:
                    F('callbacks', '%s-step callback was not passed the '
                      'solver' % typ)
    if open_step is not None:
        close()
    hit_max = ms is not None and final_count >= ms
    # ---- termination at tf
    if hit_max:
        labels.append('max_steps_hit')
        if final_count != max(ms, c0):
            F('max_steps', 'ended at iteration %d with max_steps=%d '
              '(started at %d)' % (final_count, ms, c0))
        if count == 0 and si == 0:
            labels.append('max_steps_zero')
    elif abs(final_t - tf_cur) > tol_t:
        F('final_time', 't_end=%r tf=%r after %d steps' % (final_t, tf_cur,
                                                          count))
    if final_count != c0 + count:
        F('count', 'solver.count=%d but %d steps from %d' % (
            final_count, count, c0))
    exp_seq = (['pre'] * ncb[0] + ['step'] + ['post'] * ncb[1]) * count
    if seq_ev != exp_seq:
        F('callbacks', 'pre/step/post do not alternate once per step: %r'
          % seq_ev[:12])
    else:
        per = ncb[0] + ncb[1]
        for j in range(count):
            g = group[j * per:(j + 1) * per]
            if sorted(g) != [('post', i) for i in range(ncb[1])] + \
                    [('pre', i) for i in range(ncb[0])]:
                F('callbacks', 'step %d: callbacks run %r' % (j, g))
                break
    # ---- dumps: start and end, every pfreq-th iteration
    if disabled:
        if dumps:
            F('dump_disabled', 'output written although it was disabled')
    else:
        if not dumps or dumps[0][1] != t0 or dumps[0][2] != c0:
            F('dump_start', 'no output at the start: %r' % (dumps[:1],))
        if not dumps or abs(dumps[-1][1] - final_t) > 0 or \
                dumps[-1][2] != final_count:
            F('dump_end', 'no output at the end: %r' % (dumps[-1:],))
        last = [e for e in ev if e[0] not in ('barrier', 'set_time')]
        if last and last[-1][0] != 'dump':
            F('dump_end', 'last event is not the final dump')
        dump_counts = set(d[2] for d in dumps)
        for c in need_pf:
            if c not in dump_counts:
                F('dump_pfreq', 'no output at iteration %d (pfreq then in '
                  'force)' % c)
                break
    # ---- requested times, per list in force
    inside_hit = False
    nst = len(steps)
    for vi, v in enumerate(versions):
        j0 = v['j0']
        lastv = vi == len(versions) - 1
        for T in v['outs']:
            kd = kinds.get(T) if vi == 0 else None
            if kd:
                labels.append('out:' + kd)
        if j0 >= nst:
            continue
        j1 = nst - 1 if lastv else min(versions[vi + 1]['j0'] - 1, nst - 1)
        if j1 < j0:
            continue
        lo = steps[j0][0]
        hi = final_t if lastv else steps[j1][0]
        for T in v['outs']:
            if any(abs(T - x) <= 1e-9 * x for x in tfs):
                continue
            if j0 == 0:
                if not (T > t0 + 1e-9 * tfmax):
                    continue
            elif T < lo - tol_t:
                continue
            # the step that reaches T and the tf in force when it was fixed
            js = [j for j in range(j0, j1 + 1) if steps[j][1] >= T - tol_t]
            if not js:
                continue
            if not (T < steps[js[0]][3] * (1 - 1e-9)):
                continue
            if hit_max and lastv and T > final_t:
                continue
            if T > case['tf']:
                labels.append('tf_extended_due')
            if vi > 0 and T in v.get('new', ()):
                labels.append('mid:outs_landed')
            got = any(abs(d[1] - T) <= tol_t for d in dumps)
            passed = [(a, b) for (a, b, al, _) in steps[j0:j1 + 1]
                      if a < T - tol_t and b > T + tol_t]
            for (a, b, al, _) in steps[j0:j1 + 1]:
                if a < T - tol_t and a + al > T + tol_t:
                    inside_hit = True
            first = j0 == 0 and (T - t0) < steps[0][2] * (1 - 1e-9)
            if passed:
                F('output_time_stepped_over',
                  'requested time %r lies strictly inside step [%r, %r]' % (
                      T, passed[0][0], passed[0][1]),
                  first_step=bool(first and passed[0][0] == t0))
            elif not got and T <= hi + tol_t and not disabled:
                F('output_time_missing', 'no output written at requested '
                  'time %r' % T, first_step=bool(first))
    # ---- documented extras: command handler, reordering
    if cmd is not None:
        got_cmd = [e[1] for e in ev if e[0] == 'cmd']
        if got_cmd != need_cmd:
            F('command_handler', 'handler called at iterations %r, expected '
              '%r (interval %r)' % (got_cmd[:8], need_cmd[:8], cmd_iv))
        if not all(e[2] for e in ev if e[0] == 'cmd'):
            F('command_handler', 'handler not passed the solver')
        if need_cmd:
            labels.append('cmd')
    first_step_at = next((i for i, e in enumerate(ev) if e[0] == 'step'),
                         len(ev))
    # one re-ordering = the neighbour search updated (possibly also before
    # the ordering, so that it is computed from the current arrays), the
    # arrays ordered, the neighbour search updated again: adjacent update
    # events belong to one re-ordering
    re_after = []
    prev = None
    for e in ev[first_step_at:]:
        if e[0] == 'reorder':
            if prev == 'reorder':
                re_after[-1] = re_after[-1] + list(e[1])
            else:
                re_after.append(list(e[1]))
        prev = e[0]
    if not rf:
        if any(e[0] == 'reorder' for e in ev):
            F('reorder', 'particles re-ordered with reorder_freq=0')
    else:
        nparr = case.get('nparr', 0)
        if len(re_after) != len(need_reorder) or any(
                g != list(range(nparr)) for g in re_after):
            F('reorder', '%d re-orderings %r after the first step, expected '
              '%d of all %d arrays (reorder_freq %d)' % (
                  len(re_after), re_after[:4], len(need_reorder), nparr,
                  rf))
        if need_reorder:
            labels.append('reorder')
    if landing:
        labels.append('landing')
    nt = count >= 3 and (inside_hit or (
        n_damp > 0 and case['adaptive'] and bool(case['seq'])))
    return nt, dict(tf=tf_cur, pfreq=pf, max_steps=ms, cfl=cfl,
                    outs=list(versions[-1]['outs']))


def execute(case):
    fails, labels, nt = check(case)
    return Outcome(fails, sorted(set(labels)), nt)


def plan(ctx):
    n = 24000 if ctx['tier'] == 'quick' else 1000000
    k = 16
    big = ctx['tier'] != 'quick'
    return [dict(name='loop-%02d' % i, max_examples=n // k, big=big,
                 mode='basic') for i in range(8)] + \
        [dict(name='hist-%02d' % i, max_examples=n // k, big=big,
              mode='hist') for i in range(8)]


def run_shard(spec, ctx):
    stats = Stats()
    search(case_strategy(spec['big'], spec.get('mode', 'basic')), execute,
           derive_seed(ctx.seed, 'C10', spec['name']),
           spec['max_examples'], stats, shrink=True)
    return stats.result()


def run_case(case, component, ctx):
    fails, _, _ = check(case)
    return [f.as_dict(case) for f in fails]
